package main

import (
	"fmt"
	"go/token"
	"go/types"
	"os"

	"golang.org/x/tools/go/ssa"
)

func (in *Interp) callBuiltin(caller *frame, pos token.Pos, fn *ssa.Builtin, args []value) value {
	for _, a := range args {
		if pz, ok := a.(poison); ok {
			panic(unsupported{"builtin " + fn.Name() + " on poisoned value: " + pz.why})
		}
	}
	switch fn.Name() {
	case "append":
		if len(args) == 1 {
			return args[0]
		}
		var extra []value
		switch y := args[1].(type) {
		case string, *SymStr:
			extra = strBytes(y)
		case []value:
			extra = y
		default:
			panic(fmt.Sprintf("append: %T", y))
		}
		x := args[0].([]value)
		if len(extra) == 0 {
			return x
		}
		if len(x)+len(extra) <= cap(x) {
			// in place (aliasing is part of Go's semantics)
			r := x[:len(x)+len(extra)]
			tmp := make([]value, len(extra))
			for i, e := range extra {
				tmp[i] = copyVal(e)
			}
			for i, e := range tmp {
				storeVal(&r[len(x)+i], e)
			}
			return r
		}
		// grow: Go's growth policy (doubling below 256, then 1.25x+192),
		// without size-class rounding.
		newLen := len(x) + len(extra)
		newCap := cap(x)
		doubleCap := newCap + newCap
		if newLen > doubleCap {
			newCap = newLen
		} else {
			const threshold = 256
			if cap(x) < threshold {
				newCap = doubleCap
			} else {
				for newCap < newLen {
					newCap += (newCap + 3*threshold) >> 2
				}
			}
		}
		if newCap < newLen {
			newCap = newLen
		}
		r := make([]value, newLen, newCap)
		for i := range x {
			r[i] = copyVal(x[i])
		}
		for i, e := range extra {
			r[len(x)+i] = copyVal(e)
		}
		// zero the spare capacity lazily: reslicing beyond len must see zeros
		if newCap > newLen {
			et := fn.Type().(*types.Signature).Params().At(0).Type().Underlying().(*types.Slice).Elem()
			full := r[:newCap]
			for i := newLen; i < newCap; i++ {
				full[i] = zero(et)
			}
		}
		return r

	case "copy":
		dst := args[0].([]value)
		var src []value
		switch y := args[1].(type) {
		case string, *SymStr:
			src = strBytes(y)
		case []value:
			src = y
		}
		n := len(dst)
		if len(src) < n {
			n = len(src)
		}
		// handle overlap like memmove
		tmp := make([]value, n)
		for i := 0; i < n; i++ {
			tmp[i] = copyVal(src[i])
		}
		for i := 0; i < n; i++ {
			storeVal(&dst[i], tmp[i])
		}
		return uint64(n)

	case "close":
		in.chanClose(args[0])
		return nil

	case "delete":
		m := args[0].(*Map)
		in.mapDelete(m, args[1])
		return nil

	case "print", "println":
		if os.Getenv("GOSYM_DEBUG") != "" {
			for _, a := range args {
				fmt.Fprint(os.Stderr, toString(a), " ")
			}
			fmt.Fprintln(os.Stderr)
		}
		return nil

	case "len":
		switch x := args[0].(type) {
		case string:
			return uint64(len(x))
		case *SymStr:
			return uint64(len(x.b))
		case array:
			return uint64(len(x))
		case *value:
			if x == nil {
				// len of nil *array is the array length; need type
				t := fn.Type().(*types.Signature).Params().At(0).Type()
				return uint64(deref(t).Underlying().(*types.Array).Len())
			}
			return uint64(len((*x).(array)))
		case []value:
			return uint64(len(x))
		case *Map:
			return uint64(x.length())
		case *Chan:
			if x == nil {
				return uint64(0)
			}
			return uint64(len(x.buf))
		}
		panic(fmt.Sprintf("len: illegal operand: %T", args[0]))

	case "cap":
		switch x := args[0].(type) {
		case array:
			return uint64(len(x))
		case *value:
			return uint64(len((*x).(array)))
		case []value:
			return uint64(cap(x))
		case *Chan:
			if x == nil {
				return uint64(0)
			}
			return uint64(x.cap)
		}
		panic(fmt.Sprintf("cap: illegal operand: %T", args[0]))

	case "min", "max":
		t := fn.Type().(*types.Signature).Params().At(0).Type()
		res := args[0]
		for _, a := range args[1:] {
			var c value
			if fn.Name() == "min" {
				c = in.binop(token.LSS, t, t, a, res)
			} else {
				c = in.binop(token.GTR, t, t, a, res)
			}
			switch c := c.(type) {
			case bool:
				if c {
					res = a
				}
			case *Term:
				if w, _, ok := intInfo(t); ok {
					res = fromTerm(mkIte(c, toTerm(a, w), toTerm(res, w)))
				} else if in.branch(c) {
					res = a
				}
			}
		}
		return res

	case "clear":
		switch x := args[0].(type) {
		case *Map:
			if x != nil {
				x.ents = nil
				x.idx = map[interface{}]int{}
				x.live = 0
				x.symKeys = false
			}
		case []value:
			et := fn.Type().(*types.Signature).Params().At(0).Type().Underlying().(*types.Slice).Elem()
			for i := range x {
				x[i] = zero(et)
			}
		}
		return nil

	case "real":
		return real(args[0].(complex128))
	case "imag":
		return imag(args[0].(complex128))
	case "complex":
		return complex(args[0].(float64), args[1].(float64))

	case "recover":
		return in.doRecover(caller)

	case "ssa:wrapnilchk":
		recv := args[0]
		if p, ok := recv.(*value); ok && p == nil {
			panic(rtPanic(fmt.Sprintf("value method %s.%s called using nil *%s pointer", toString(args[1]), toString(args[2]), toString(args[1]))))
		}
		return recv

	case "ssa:deferstack":
		return &caller.defers

	case "String": // unsafe.String(ptr, len)
		n, _ := asInt(args[1], types.Typ[types.Int])
		switch p := args[0].(type) {
		case *value:
			if n == 0 {
				return ""
			}
			return in.bytesFromPtr(p, int(n))
		case strPtr:
			switch s := p.s.(type) {
			case []value:
				return mkStr(s[p.off : p.off+int(n)])
			default:
				return strSlice(p.s, p.off, p.off+int(n))
			}
		}
		panic(unsupported{fmt.Sprintf("unsafe.String on %T", args[0])})

	case "StringData":
		return strPtr{s: args[0], off: 0}

	case "SliceData":
		s := args[0].([]value)
		if len(s) == 0 && cap(s) == 0 {
			return (*value)(nil)
		}
		return strPtr{s: s[:cap(s)], off: 0}

	case "Slice": // unsafe.Slice(ptr, len)
		n, _ := asInt(args[1], types.Typ[types.Int])
		switch p := args[0].(type) {
		case strPtr:
			switch s := p.s.(type) {
			case []value:
				return s[p.off : p.off+int(n) : p.off+int(n)]
			default:
				return strBytes(strSlice(p.s, p.off, p.off+int(n)))
			}
		case *value:
			if p == nil && n == 0 {
				return []value(nil)
			}
		}
		panic(unsupported{fmt.Sprintf("unsafe.Slice on %T", args[0])})

	case "Add": // unsafe.Add(ptr, n)
		n, ok := asInt(args[1], types.Typ[types.Int])
		if !ok {
			panic(unsupported{"unsafe.Add with symbolic offset"})
		}
		switch p := args[0].(type) {
		case strPtr:
			return strPtr{s: p.s, off: p.off + int(n)}
		}
		panic(unsupported{fmt.Sprintf("unsafe.Add on %T", args[0])})
	}
	panic(unsupported{"builtin " + fn.Name()})
}

func (in *Interp) bytesFromPtr(p *value, n int) value {
	panic(unsupported{"unsafe.String from a plain pointer"})
}
