package main

import (
	"fmt"
)

// A decision is a point with k possible outcomes. alts holds the outcomes
// still to be explored after the chosen one.
type decision struct {
	k      int
	chosen int
	alts   []int
}

// feasible decides satisfiability of pc ∧ c. Unknown counts as feasible (the
// path is kept; soundness of reported violations is restored by replay).
func (in *Interp) feasible(c *Term, wantModel bool) bool {
	if c.isConst() {
		return c.cval != 0
	}
	in.stats.feasQueries++
	res, model := in.solver.check(in.pc, c, wantModel)
	switch res {
	case rUnsat:
		return false
	case rSat:
		if wantModel {
			in.model = model
			in.modelMemo = map[*Term]uint64{}
		}
		return true
	}
	in.stats.unknownFeas++
	in.uncertain = true
	return true
}

// evalUnderModel evaluates c under the cached model of the path condition.
func (in *Interp) evalUnderModel(c *Term) (bool, bool) {
	if in.model == nil {
		return false, false
	}
	v, ok := evalTerm(c, in.model, in.modelMemo)
	if !ok {
		return false, false
	}
	return v != 0, true
}

func (in *Interp) addPC(c *Term) {
	if c.isConst() {
		return
	}
	in.pc = append(in.pc, c)
}

// truth turns a boolean value into a Go bool, forking on symbolic ones.
func (in *Interp) truth(v value) bool {
	switch v := v.(type) {
	case bool:
		return v
	case *Term:
		return in.branch(v)
	case poison:
		panic(unsupported{"branch on poisoned value: " + v.why})
	}
	panic(fmt.Sprintf("truth: %T", v))
}

// branch decides a symbolic boolean; outcome 0 = true, 1 = false.
func (in *Interp) branch(c *Term) bool {
	if c.isConst() {
		return c.cval != 0
	}
	if in.concrete {
		panic(fmt.Sprintf("symbolic branch in concrete mode: %s", c.body()))
	}
	if in.pos < len(in.path) {
		d := in.path[in.pos]
		in.pos++
		if d.k != 2 {
			panic(fmt.Sprintf("replay divergence: expected %d-way decision, got branch", d.k))
		}
		if d.chosen == 0 {
			in.addPC(c)
			return true
		}
		in.addPC(mkNot(c))
		return false
	}
	if len(in.path) >= in.cfg.maxDecisions {
		panic(pathEnd{"bound", fmt.Sprintf("decision bound %d exceeded", in.cfg.maxDecisions)})
	}
	in.stats.decisions++
	nc := mkNot(c)
	var first bool
	var other bool
	if mv, ok := in.evalUnderModel(c); ok {
		first = mv
		if mv {
			other = in.feasible(nc, false)
		} else {
			other = in.feasible(c, false)
		}
	} else {
		// no model: ask for the true side with a model
		if in.feasible(c, true) {
			first = true
			other = in.feasible(nc, false)
		} else {
			first = false
			other = false // pc is satisfiable by invariant, so ¬c is feasible
			in.model = nil
		}
	}
	d := decision{k: 2}
	if first {
		d.chosen = 0
		if other {
			d.alts = []int{1}
		}
	} else {
		d.chosen = 1
		if other {
			d.alts = []int{0}
		}
	}
	in.path = append(in.path, d)
	in.pos++
	if first {
		in.addPC(c)
	} else {
		in.addPC(nc)
	}
	return first
}

// choose is an n-way decision; cond(i) is the condition of outcome i (nil =
// unconditional nondeterministic choice).
func (in *Interp) choose(k int, cond func(i int) *Term) int {
	if in.concrete {
		panic("n-way decision in concrete mode")
	}
	if in.pos < len(in.path) {
		d := in.path[in.pos]
		in.pos++
		if d.k != k {
			panic(fmt.Sprintf("replay divergence: expected %d-way decision, got %d-way", d.k, k))
		}
		if cond != nil {
			in.addPC(cond(d.chosen))
		}
		return d.chosen
	}
	if len(in.path) >= in.cfg.maxDecisions {
		panic(pathEnd{"bound", fmt.Sprintf("decision bound %d exceeded", in.cfg.maxDecisions)})
	}
	in.stats.decisions++
	var feas []int
	for i := 0; i < k; i++ {
		if cond == nil {
			feas = append(feas, i)
			continue
		}
		c := cond(i)
		if mv, ok := in.evalUnderModel(c); ok && mv {
			feas = append(feas, i)
			continue
		}
		if in.feasible(c, false) {
			feas = append(feas, i)
		}
	}
	if len(feas) == 0 {
		panic(pathEnd{"assume", "no feasible outcome in n-way decision"})
	}
	d := decision{k: k, chosen: feas[0], alts: feas[1:]}
	in.path = append(in.path, d)
	in.pos++
	if cond != nil {
		c := cond(d.chosen)
		in.addPC(c)
		if mv, ok := in.evalUnderModel(c); !ok || !mv {
			in.model = nil
		}
	}
	return d.chosen
}

// concretize picks a concrete value in [0,n) for a 64-bit term.
func (in *Interp) concretize(t *Term, n int) int {
	if t.isConst() {
		return int(t.cval)
	}
	if n <= 0 {
		panic(pathEnd{"assume", "concretize over empty range"})
	}
	return in.choose(n, func(i int) *Term { return mkEq(t, mkBV(uint64(i), t.sort.w)) })
}

// backtrack prepares the next path; false when exploration is complete.
func (in *Interp) backtrack() bool {
	for len(in.path) > 0 {
		d := &in.path[len(in.path)-1]
		if len(d.alts) > 0 {
			d.chosen = d.alts[0]
			d.alts = d.alts[1:]
			return true
		}
		in.path = in.path[:len(in.path)-1]
	}
	return false
}
