package main

import (
	"fmt"
	"os"
	"time"
)

// A decision is a point with k possible outcomes. alts holds the outcomes
// still to be explored after the chosen one.
type decision struct {
	K      int   `json:"k"`
	Chosen int   `json:"c"`
	alts   []int
	PcLen  int   `json:"p"` // length of the path condition before this decision
	Forced bool  `json:"f"` // only one outcome was feasible: nothing was added to the pc
	Val    uint64 `json:"v,omitempty"` // concretizeAny: the value of outcome 0
}

// checkSplit ends the path at the split depth (master of a parallel run): the
// decisions taken so far become a prefix for a worker process.
func (in *Interp) checkSplit() {
	if in.splitDepth <= 0 {
		return
	}
	n := 0
	for _, d := range in.path {
		if !d.Forced {
			n++
		}
	}
	if n >= in.splitDepth {
		pf := make([]decision, len(in.path))
		for i, d := range in.path {
			pf[i] = decision{K: d.K, Chosen: d.Chosen, PcLen: d.PcLen, Forced: d.Forced, Val: d.Val}
		}
		in.frontier = append(in.frontier, pf)
		panic(pathEnd{"frontier", ""})
	}
}

// feasible decides satisfiability of pc ∧ c. Unknown counts as feasible (the
// path is kept; soundness of reported violations is restored by replay).
func (in *Interp) feasible(c *Term, wantModel bool) bool {
	if c.isConst() {
		return c.cval != 0
	}
	in.stats.feasQueries++
	if in.prof != nil && in.curSite != nil {
		in.prof[in.prog.Fset.Position(in.curSite.Pos()).String()+" "+in.curSite.Parent().Name()]++
	}
	if os.Getenv("GOSYM_QLOG") != "" && in.curSite != nil {
		b := c.body()
		if len(b) > 160 {
			b = b[:160]
		}
		fmt.Fprintf(os.Stderr, "Q %s %s: %s\n", in.curSite.Parent().Name(), in.curSite.Block().Comment, b)
	}
	t0 := time.Now()
	res, model := in.solver.check(in.pc, c, wantModel)
	if d := time.Since(t0); d > 2*time.Second && os.Getenv("GOSYM_SLOW") != "" && in.curSite != nil {
		fmt.Fprintf(os.Stderr, "SLOW %.1fs %v feasibility at %s in %s\n", d.Seconds(), res, in.prog.Fset.Position(in.curSite.Pos()), in.curSite.Parent().Name())
	}
	switch res {
	case rUnsat:
		return false
	case rSat:
		if wantModel {
			in.model = model
			in.modelMemo = map[*Term]uint64{}
		}
		return true
	}
	in.stats.unknownFeas++
	in.uncertain = true
	return true
}

// evalUnderModel evaluates c under the cached model of the path condition.
func (in *Interp) evalUnderModel(c *Term) (bool, bool) {
	if in.model == nil {
		return false, false
	}
	v, ok := evalTerm(c, in.model, in.modelMemo)
	if !ok {
		return false, false
	}
	return v != 0, true
}

func (in *Interp) addPC(c *Term) {
	if c.isConst() {
		return
	}
	in.pc = append(in.pc, c)
	in.pcSet[c] = true
	if !noWires {
		learnZeroBits(c)
	}
	if in.model != nil {
		if mv, ok := in.evalUnderModel(c); !ok || !mv {
			in.model = nil
		}
	}
}

type implEnt struct {
	val   bool
	pcLen int
}

// known reports whether the path condition is already known to decide c.
func (in *Interp) known(c *Term) (bool, bool) {
	if in.pcSet[c] {
		return true, true
	}
	nc := mkNot(c)
	if in.pcSet[nc] {
		return false, true
	}
	if e, ok := in.implied[c]; ok && e.pcLen <= len(in.pc) {
		return e.val, true
	}
	if e, ok := in.implied[nc]; ok && e.pcLen <= len(in.pc) {
		return !e.val, true
	}
	return false, false
}

// truth turns a boolean value into a Go bool, forking on symbolic ones.
func (in *Interp) truth(v value) bool {
	switch v := v.(type) {
	case bool:
		return v
	case *Term:
		return in.branch(v)
	case poison:
		panic(unsupported{"branch on poisoned value: " + v.why})
	}
	panic(fmt.Sprintf("truth: %T", v))
}

// branch decides a symbolic boolean; outcome 0 = true, 1 = false.
func (in *Interp) branch(c *Term) bool {
	if c.isConst() {
		return c.cval != 0
	}
	if in.concrete {
		panic(fmt.Sprintf("symbolic branch in concrete mode: %s", c.body()))
	}
	if in.noFork {
		panic(unsupported{"decision inside a speculatively executed branch arm"})
	}
	if in.pos < len(in.path) {
		d := in.path[in.pos]
		in.pos++
		if d.K != 2 {
			panic(fmt.Sprintf("replay divergence: expected %d-way decision, got branch", d.K))
		}
		if d.Chosen == 0 {
			if !d.Forced {
				in.addPC(c)
			}
			return true
		}
		if !d.Forced {
			in.addPC(mkNot(c))
		}
		return false
	}
	in.checkSplit()
	if len(in.path) >= in.cfg.maxDecisions {
		panic(pathEnd{"bound", fmt.Sprintf("decision bound %d exceeded", in.cfg.maxDecisions)})
	}
	nc := mkNot(c)
	var first bool
	var other bool
	if kv, ok := in.known(c); ok {
		first, other = kv, false
	} else if mv, ok := in.evalUnderModel(c); ok {
		first = mv
		if mv {
			other = in.feasible(nc, false)
		} else {
			other = in.feasible(c, false)
		}
	} else {
		// no model: ask for the true side with a model
		if in.feasible(c, true) {
			first = true
			other = in.feasible(nc, false)
		} else {
			first = false
			other = false // pc is satisfiable by invariant, so ¬c is feasible
			in.model = nil
		}
	}
	d := decision{K: 2, PcLen: len(in.pc), Forced: !other}
	if first {
		d.Chosen = 0
		if other {
			d.alts = []int{1}
		}
	} else {
		d.Chosen = 1
		if other {
			d.alts = []int{0}
		}
	}
	in.path = append(in.path, d)
	in.pos++
	if other {
		in.stats.decisions++
		if first {
			in.addPC(c)
		} else {
			in.addPC(nc)
		}
	} else {
		in.stats.forced++
		if !in.uncertain {
			in.implied[c] = implEnt{first, len(in.pc)}
		}
	}
	return first
}

// choose is an n-way decision; cond(i) is the condition of outcome i (nil =
// unconditional nondeterministic choice).
func (in *Interp) choose(k int, cond func(i int) *Term) int {
	if in.concrete {
		if cond == nil {
			// a scheduling decision: concrete mode runs one seeded schedule
			in.schedSeed = (in.schedSeed+in.seed)*6364136223846793005 + 1442695040888963407
			return int((in.schedSeed >> 33) % uint64(k))
		}
		panic("n-way decision in concrete mode")
	}
	if in.noFork {
		panic(unsupported{"decision inside a speculatively executed branch arm"})
	}
	if in.pos < len(in.path) {
		d := in.path[in.pos]
		in.pos++
		if d.K != k {
			panic(fmt.Sprintf("replay divergence: expected %d-way decision, got %d-way", d.K, k))
		}
		if cond != nil {
			in.addPC(cond(d.Chosen))
		}
		return d.Chosen
	}
	in.checkSplit()
	if len(in.path) >= in.cfg.maxDecisions {
		panic(pathEnd{"bound", fmt.Sprintf("decision bound %d exceeded", in.cfg.maxDecisions)})
	}
	in.stats.decisions++
	var feas []int
	for i := 0; i < k; i++ {
		if cond == nil {
			feas = append(feas, i)
			continue
		}
		c := cond(i)
		if kv, ok := in.known(c); ok {
			if kv {
				feas = append(feas, i)
			}
			continue
		}
		if mv, ok := in.evalUnderModel(c); ok && mv {
			feas = append(feas, i)
			continue
		}
		if in.feasible(c, false) {
			feas = append(feas, i)
		} else if !in.uncertain {
			in.implied[c] = implEnt{false, len(in.pc)}
		}
	}
	if len(feas) == 0 {
		panic(pathEnd{"assume", "no feasible outcome in n-way decision"})
	}
	d := decision{K: k, Chosen: feas[0], alts: feas[1:], PcLen: len(in.pc)}
	in.path = append(in.path, d)
	in.pos++
	if cond != nil {
		c := cond(d.Chosen)
		in.addPC(c)
		if mv, ok := in.evalUnderModel(c); !ok || !mv {
			in.model = nil
		}
	}
	return d.Chosen
}

// concretize picks a concrete value in [0,n) for a 64-bit term. The feasible
// values are enumerated with the solver's models (one query per value) rather
// than by testing every candidate.
func (in *Interp) concretize(t *Term, n int) int {
	if t.isConst() {
		return int(t.cval)
	}
	if n <= 0 {
		panic(pathEnd{"assume", "concretize over empty range"})
	}
	if in.concrete {
		panic("concretize in concrete mode")
	}
	if in.noFork {
		panic(unsupported{"decision inside a speculatively executed branch arm"})
	}
	cond := func(i int) *Term { return mkEq(t, mkBV(uint64(i), t.sort.w)) }
	if in.pos < len(in.path) {
		d := in.path[in.pos]
		in.pos++
		if d.K != n {
			panic(fmt.Sprintf("replay divergence: expected %d-way decision, got %d-way concretisation", d.K, n))
		}
		in.addPC(cond(d.Chosen))
		return d.Chosen
	}
	in.checkSplit()
	if len(in.path) >= in.cfg.maxDecisions {
		panic(pathEnd{"bound", fmt.Sprintf("decision bound %d exceeded", in.cfg.maxDecisions)})
	}
	in.stats.decisions++
	var feas []int
	if n <= 3 {
		for i := 0; i < n; i++ {
			c := cond(i)
			if kv, ok := in.known(c); ok {
				if kv {
					feas = append(feas, i)
				}
				continue
			}
			if in.feasible(c, false) {
				feas = append(feas, i)
			}
		}
	} else {
		// model-guided enumeration
		excl := mkCmp("bvult", t, mkBV(uint64(n), t.sort.w))
		first := true
		for len(feas) < n {
			var v uint64
			got := false
			if first {
				first = false
				if mv, ok := in.evalUnderModel(excl); ok && mv {
					if x, ok := evalTerm(t, in.model, in.modelMemo); ok {
						v, got = x, true
					}
				}
			}
			if !got {
				in.stats.feasQueries++
				res, model := in.solver.check(in.pc, excl, true)
				if res == rUnsat {
					break
				}
				if res != rSat {
					in.stats.unknownFeas++
					in.uncertain = true
					// fall back to trying every remaining candidate
					for i := 0; i < n; i++ {
						dup := false
						for _, f := range feas {
							if f == i {
								dup = true
							}
						}
						if !dup && in.feasible(cond(i), false) {
							feas = append(feas, i)
						}
					}
					break
				}
				x, ok := evalTerm(t, model, map[*Term]uint64{})
				if !ok {
					panic(unsupported{"cannot evaluate term under model"})
				}
				v = x
			}
			if v >= uint64(n) {
				panic(fmt.Sprintf("concretize: model value %d out of range %d", v, n))
			}
			feas = append(feas, int(v))
			excl = mkAnd(excl, mkNot(cond(int(v))))
		}
	}
	if len(feas) == 0 {
		panic(pathEnd{"assume", "no feasible value in concretisation"})
	}
	d := decision{K: n, Chosen: feas[0], alts: feas[1:], PcLen: len(in.pc)}
	in.path = append(in.path, d)
	in.pos++
	in.addPC(cond(d.Chosen))
	return d.Chosen
}

// concretizeAny turns a symbolic bit-vector into a concrete value by
// enumerating its feasible values with the solver's models: each step is a
// two-way decision "t == v" (v taken from a model and recorded in the
// decision) or "t != v".  Used where a shape (slice bound, make size) turned
// out symbolic.
func (in *Interp) concretizeAny(t *Term, what string) uint64 {
	if t.isConst() {
		return t.cval
	}
	if in.concrete {
		panic("concretizeAny in concrete mode")
	}
	if in.noFork {
		panic(unsupported{"decision inside a speculatively executed branch arm"})
	}
	w := t.sort.w
	for n := 0; ; n++ {
		if n > in.cfg.maxConcretize {
			panic(pathEnd{"bound", fmt.Sprintf("%s: more than %d feasible values of a symbolic size", what, in.cfg.maxConcretize)})
		}
		if in.pos < len(in.path) {
			d := in.path[in.pos]
			in.pos++
			if d.K != 2 {
				panic(fmt.Sprintf("replay divergence: expected %d-way decision, got value enumeration", d.K))
			}
			eq := mkEq(t, mkBV(d.Val, w))
			if d.Chosen == 0 {
				if !d.Forced {
					in.addPC(eq)
				}
				return d.Val
			}
			in.addPC(mkNot(eq))
			continue
		}
		in.checkSplit()
		if len(in.path) >= in.cfg.maxDecisions {
			panic(pathEnd{"bound", fmt.Sprintf("decision bound %d exceeded", in.cfg.maxDecisions)})
		}
		var v uint64
		got := false
		if in.model != nil {
			if x, ok := evalTerm(t, in.model, in.modelMemo); ok {
				v, got = x, true
			}
		}
		if !got {
			in.stats.feasQueries++
			res, model := in.solver.check(in.pc, nil, true)
			if res != rSat {
				if res == rUnsat {
					panic(pathEnd{"assume", "infeasible path at value enumeration"})
				}
				in.stats.unknownFeas++
				in.stats.inconclusive++
				panic(pathEnd{"inconclusive", what + ": solver could not produce a value"})
			}
			in.model, in.modelMemo = model, map[*Term]uint64{}
			x, ok := evalTerm(t, model, in.modelMemo)
			if !ok {
				panic(unsupported{"cannot evaluate term under model"})
			}
			v = x
		}
		eq := mkEq(t, mkBV(v, w))
		other := in.feasible(mkNot(eq), false)
		d := decision{K: 2, Chosen: 0, PcLen: len(in.pc), Forced: !other, Val: v}
		if other {
			d.alts = []int{1}
			in.stats.decisions++
		} else {
			in.stats.forced++
		}
		in.path = append(in.path, d)
		in.pos++
		if other {
			in.addPC(eq)
		}
		return v
	}
}

// backtrack prepares the next path; false when exploration is complete.
func (in *Interp) backtrack() bool {
	for len(in.path) > in.base {
		d := &in.path[len(in.path)-1]
		if len(d.alts) > 0 {
			d.Chosen = d.alts[0]
			d.alts = d.alts[1:]
			for k, e := range in.implied {
				if e.pcLen > d.PcLen {
					delete(in.implied, k)
				}
			}
			return true
		}
		in.path = in.path[:len(in.path)-1]
	}
	return false
}
