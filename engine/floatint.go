package main

import (
	"math"
	"strconv"
)

// "Integer-valued float": the float64 obtained from a symbolic integer by a
// conversion followed by a fixed chain of multiplications with concrete
// constants, e.g. s1.Angle(latE7) * s1.E7.  No IEEE arithmetic is sent to the
// solver: two such values are equal iff their chains are identical and the
// integers are equal (assumption, stated in the evidence: for the chains that
// occur — one multiplication by s1.E7 on an int32 — the map from integer to
// float64 is injective, float64 having 53 significant bits), and
// (s1.Angle).E7 inverts Angle(i)*s1.E7 exactly for every int32 i (the
// library's contract; cross-checked natively on the seeded vectors of every
// run).
type intFloat struct {
	t     *Term // sign- or zero-extended to 64 bits
	chain string
}

func mkIntFloat(t *Term, w int, signed bool) intFloat {
	if signed {
		return intFloat{t: mkSext(t, 64)}
	}
	return intFloat{t: mkZext(t, 64)}
}

func (f intFloat) mul(c float64) intFloat {
	return intFloat{t: f.t, chain: f.chain + "*" + fmtFloatBits(c)}
}

func fmtFloatBits(c float64) string {
	return formatUintHex(mathFloat64bits(c))
}

func mathFloat64bits(c float64) uint64 { return math.Float64bits(c) }
func formatUintHex(u uint64) string    { return strconv.FormatUint(u, 16) }
