package main

import (
	"go/token"
	"math"
	"strconv"
)

// "Integer-valued float": the float64 obtained from a symbolic integer by a
// conversion followed by a fixed chain of multiplications with concrete
// constants, e.g. s1.Angle(latE7) * s1.E7.  No IEEE arithmetic is sent to the
// solver: two such values are equal iff their chains are identical and the
// integers are equal (assumption, stated in the evidence: for the chains that
// occur — one multiplication by s1.E7 on an int32 — the map from integer to
// float64 is injective, float64 having 53 significant bits), and
// (s1.Angle).E7 inverts Angle(i)*s1.E7 exactly for every int32 i (the
// library's contract; cross-checked natively on the seeded vectors of every
// run).
type intFloat struct {
	t     *Term // sign- or zero-extended to 64 bits
	chain string
}

func mkIntFloat(t *Term, w int, signed bool) intFloat {
	if signed {
		return intFloat{t: mkSext(t, 64)}
	}
	return intFloat{t: mkZext(t, 64)}
}

func (f intFloat) mul(c float64) intFloat {
	return intFloat{t: f.t, chain: f.chain + "*" + fmtFloatBits(c)}
}

func fmtFloatBits(c float64) string {
	return formatUintHex(mathFloat64bits(c))
}

func mathFloat64bits(c float64) uint64 { return math.Float64bits(c) }
func formatUintHex(u uint64) string    { return strconv.FormatUint(u, 16) }

func intFloatOfConcrete(v float64) (*Term, bool) {
	if v == math.Trunc(v) && math.Abs(v) < 1<<52 {
		return mkBV(uint64(int64(v)), 64), true
	}
	return nil, false
}

// intFloatArith: exact integer semantics for + - < <= > >= on integer-valued
// floats without a multiplication chain.  Sound as long as every intermediate
// stays below 2^53 in magnitude, which the harnesses guarantee by bounding
// their inputs (stated in their assumptions).
func (in *Interp) intFloatArith(op token.Token, x, y value) (value, bool) {
	xi, xok := x.(intFloat)
	yi, yok := y.(intFloat)
	if !xok && !yok {
		return nil, false
	}
	if xok && xi.chain != "" || yok && yi.chain != "" {
		return nil, false
	}
	inf := 0 // sign of a concrete infinity operand, side recorded below
	side := 0
	var xt, yt *Term
	if xok {
		xt = xi.t
	} else if xf, ok := x.(float64); ok {
		if math.IsInf(xf, 0) {
			inf, side = int(math.Copysign(1, xf)), 1
		} else if t, ok := intFloatOfConcrete(xf); ok {
			xt = t
		} else {
			return nil, false
		}
	} else {
		return nil, false
	}
	if yok {
		yt = yi.t
	} else if yf, ok := y.(float64); ok {
		if math.IsInf(yf, 0) {
			inf, side = int(math.Copysign(1, yf)), 2
		} else if t, ok := intFloatOfConcrete(yf); ok {
			yt = t
		} else {
			return nil, false
		}
	} else {
		return nil, false
	}
	if inf != 0 {
		// comparisons against an infinity are constants; arithmetic yields it
		less := (side == 2 && inf > 0) || (side == 1 && inf < 0) // x < y ?
		switch op {
		case token.LSS, token.LEQ:
			return less, true
		case token.GTR, token.GEQ:
			return !less, true
		case token.ADD:
			return math.Inf(inf), true
		case token.SUB:
			if side == 1 {
				return math.Inf(inf), true
			}
			return math.Inf(-inf), true
		}
		return nil, false
	}
	switch op {
	case token.ADD:
		return intFloat{t: mkBin("bvadd", xt, yt)}, true
	case token.SUB:
		return intFloat{t: mkBin("bvsub", xt, yt)}, true
	case token.LSS:
		return fromTerm(mkCmp("bvslt", xt, yt)), true
	case token.LEQ:
		return fromTerm(mkCmp("bvsle", xt, yt)), true
	case token.GTR:
		return fromTerm(mkCmp("bvslt", yt, xt)), true
	case token.GEQ:
		return fromTerm(mkCmp("bvsle", yt, xt)), true
	}
	return nil, false
}
