package main

import (
	"fmt"
	"go/types"
	"strings"
)

// Map is an insertion-ordered map; keys may be symbolic (association-list
// semantics with one equality decision per stored key).
type Map struct {
	keyT    types.Type
	ents    []mapEnt
	idx     map[interface{}]int
	live    int
	symKeys bool
}

type mapEnt struct {
	key, val value
	dead     bool
}

func newMap(kt types.Type) *Map {
	return &Map{keyT: kt, idx: map[interface{}]int{}}
}

func (m *Map) length() int {
	if m == nil {
		return 0
	}
	return m.live
}

type ifaceKey struct {
	t string
	k interface{}
}

// hashKey returns a Go-comparable key for a fully concrete value.
func hashKey(v value) (interface{}, bool) {
	switch v := v.(type) {
	case bool, uint64, float64, complex128, string, *value, *Chan:
		return v, true
	case *Term, *SymStr:
		return nil, false
	case iface:
		if v.t == nil {
			return ifaceKey{}, true
		}
		k, ok := hashKey(v.v)
		if !ok {
			return nil, false
		}
		return ifaceKey{t: v.t.String(), k: k}, true
	case structure:
		var sb strings.Builder
		sb.WriteString("S{")
		for _, e := range v {
			k, ok := hashKey(e)
			if !ok {
				return nil, false
			}
			fmt.Fprintf(&sb, "%T:%v;", k, k)
		}
		sb.WriteString("}")
		return sb.String(), true
	case array:
		var sb strings.Builder
		sb.WriteString("A[")
		for _, e := range v {
			k, ok := hashKey(e)
			if !ok {
				return nil, false
			}
			fmt.Fprintf(&sb, "%T:%v;", k, k)
		}
		sb.WriteString("]")
		return sb.String(), true
	case rtype:
		return "rtype:" + v.t.String(), true
	case strPtr:
		return fmt.Sprintf("strPtr:%p:%d", v.s, v.off), true
	}
	panic(unsupported{fmt.Sprintf("map key of kind %T", v)})
}

// find returns the index of the entry whose key equals k, or -1.
func (in *Interp) mapFind(m *Map, k value) int {
	if m == nil {
		return -1
	}
	hk, conc := hashKey(k)
	if conc && !m.symKeys {
		if i, ok := m.idx[hk]; ok {
			return i
		}
		return -1
	}
	for i := range m.ents {
		e := &m.ents[i]
		if e.dead {
			continue
		}
		c := in.eqTerm(m.keyT, k, e.key)
		if c.isConst() {
			if c.cval != 0 {
				return i
			}
			continue
		}
		if in.branch(c) {
			return i
		}
	}
	return -1
}

func (in *Interp) mapLookup(m *Map, k value) (value, bool) {
	i := in.mapFind(m, k)
	if i < 0 {
		return nil, false
	}
	return m.ents[i].val, true
}

func (in *Interp) mapInsert(m *Map, k, v value) {
	if m == nil {
		panic(rtPanic("assignment to entry in nil map"))
	}
	i := in.mapFind(m, k)
	if i >= 0 {
		m.ents[i].val = copyVal(v)
		return
	}
	hk, conc := hashKey(k)
	m.ents = append(m.ents, mapEnt{key: copyVal(k), val: copyVal(v)})
	if conc {
		m.idx[hk] = len(m.ents) - 1
	} else {
		m.symKeys = true
	}
	m.live++
}

func (in *Interp) mapDelete(m *Map, k value) {
	i := in.mapFind(m, k)
	if i < 0 {
		return
	}
	e := &m.ents[i]
	e.dead = true
	if hk, conc := hashKey(e.key); conc {
		delete(m.idx, hk)
	}
	m.live--
}

// iteration -----------------------------------------------------------------

type iter interface {
	next(in *Interp) tuple
}

type mapIter struct {
	m   *Map
	i   int
	end int
	rev bool
}

func (it *mapIter) next(in *Interp) tuple {
	if it.m == nil {
		return tuple{false, nil, nil}
	}
	for it.i < it.end {
		j := it.i
		if it.rev {
			j = it.end - 1 - it.i
		}
		it.i++
		e := &it.m.ents[j]
		if e.dead {
			continue
		}
		return tuple{true, copyVal(e.key), copyVal(e.val)}
	}
	return tuple{false, nil, nil}
}

type stringIter struct {
	s value
	i int
}

func (it *stringIter) next(in *Interp) tuple {
	n := strLen(it.s)
	if it.i >= n {
		return tuple{false, uint64(0), uint64(0)}
	}
	switch s := it.s.(type) {
	case string:
		pos := it.i
		r, sz := decodeRune(s[pos:])
		it.i += sz
		return tuple{true, uint64(pos), uint64(uint32(r))}
	case *SymStr:
		pos := it.i
		b := s.b[pos]
		if u, ok := b.(uint64); ok && u < 0x80 {
			it.i++
			return tuple{true, uint64(pos), u}
		}
		if t, ok := b.(*Term); ok {
			// require ASCII on this path
			if in.branch(mkCmp("bvult", t, mkBV(0x80, 8))) {
				it.i++
				return tuple{true, uint64(pos), fromTerm(mkZext(t, 32))}
			}
			panic(unsupported{"range over symbolic string with non-ASCII byte"})
		}
		panic(unsupported{"range over symbolic string with concrete non-ASCII byte"})
	}
	panic("stringIter")
}

func decodeRune(s string) (rune, int) {
	for i, r := range s {
		_ = i
		n := len(string(r))
		if r == 0xFFFD {
			// could be an invalid byte (size 1) or a real U+FFFD (size 3)
			if len(s) >= 3 && s[0] == 0xEF && s[1] == 0xBF && s[2] == 0xBD {
				return r, 3
			}
			return r, 1
		}
		return r, n
	}
	return 0, 0
}

// Chan --------------------------------------------------------------------

type Chan struct {
	buf         []value
	cap         int
	closed      bool
	recvWaiting int // receivers parked on an unbuffered channel
	handoff     int
}
