package main

import (
	"fmt"
	"go/token"
	"go/types"
	"os"
	"sort"
	"strings"
	"time"

	"golang.org/x/tools/go/ssa"
)

type harnessCfg struct {
	maxSteps       int
	maxDepth       int
	maxDecisions   int
	maxConcretize  int
	maxPaths       int
	solver         string
	timeoutMs      int
	wallLimit      time.Duration
	concurrent     bool
	maxPreemptions int
	numCPU         int
	forkIndexBelow int
	maxSchedPoints int
	// a feasible path that exceeds the call-depth bound is a violation
	// ("never hangs"): natively a stack overflow crashes the test binary
	recursionIsViolation bool
}

func defaultCfg() harnessCfg {
	return harnessCfg{maxSteps: 2000000, maxDepth: 200, maxDecisions: 5000, maxConcretize: 64, maxPaths: 200000, solver: "z3new", timeoutMs: 30000, wallLimit: 10 * time.Minute, maxSchedPoints: 60, maxPreemptions: 2, forkIndexBelow: 8}
}

type runStats struct {
	paths         int
	decisions     int
	forced        int
	unsatPC       int
	dupViolations int
	feasQueries   int
	assertQuery   int
	discharged    int
	unknownFeas   int
	inconclusive  int
	assumeEnds    int
	unsupported   map[string]int
	boundEnds     map[string]int
	stubsUsed     map[string]int
	violations    []violation
	samples       []string
	reachedAll    map[string]int
	opaqueFormats int
}

type violation struct {
	Harness string            `json:"harness"`
	Msg     string            `json:"msg"`
	Kind    string            `json:"kind"` // assert | panic
	Inputs  map[string]string `json:"inputs"`
	Order   []string          `json:"order"`
	Path    []int             `json:"path"`
}

// ---------------------------------------------------------------- harness API

// seeded pseudo-random values shared with the native side (zz_vsym.go).
func vhMix(seed uint64, name string, ctr int) uint64 {
	h := uint64(1469598103934665603)
	for i := 0; i < len(name); i++ {
		h ^= uint64(name[i])
		h *= 1099511628211
	}
	x := seed*0x9E3779B97F4A7C15 + h + uint64(ctr)*0xBF58476D1CE4E5B9
	x ^= x >> 30
	x *= 0xBF58476D1CE4E5B9
	x ^= x >> 27
	x *= 0x94D049BB133111EB
	x ^= x >> 31
	return x
}

func vhBiased(seed uint64, name string, ctr int) uint64 {
	h := vhMix(seed, name, ctr)
	g := vhMix(seed^0xABCDEF, name, ctr)
	switch h % 10 {
	case 0:
		return 0
	case 1:
		return 1
	case 2:
		return ^uint64(0)
	case 3:
		return 1 << 63
	case 4:
		return 1 << 62
	case 5:
		return g & 0xff
	case 6:
		return g & 0xffff
	case 7:
		return (uint64(1) << (g % 64)) - (g>>8)%2
	}
	return g
}

func (in *Interp) inputName(name string) string {
	n := in.names[name]
	in.names[name] = n + 1
	return fmt.Sprintf("%s.%d", name, n)
}

// newInput creates a symbolic (or, in concrete mode, seeded) integer input.
func (in *Interp) newInput(name string, w int) value {
	full := in.inputName(name)
	if in.concrete {
		if in.replayVals != nil {
			return in.replayVals[full] & maskW(w)
		}
		ctr := in.names[name] - 1
		return vhBiased(in.seed, name, ctr) & maskW(w)
	}
	t := mkVar(full, bvSort(w))
	in.inputs = append(in.inputs, inputRec{full, t})
	return t
}

func argStr(v value) string {
	s, ok := v.(string)
	if !ok {
		panic(unsupported{"harness API: name argument must be a constant string"})
	}
	return s
}

func (in *Interp) harnessAPI(caller *frame, fn *ssa.Function, args []value) (value, bool) {
	switch fn.Name() {
	case "vU64", "vI64", "vInt":
		return in.newInput(argStr(args[0]), 64), true
	case "vU32", "vI32":
		return in.newInput(argStr(args[0]), 32), true
	case "vU16", "vI16":
		return in.newInput(argStr(args[0]), 16), true
	case "vU8", "vI8":
		return in.newInput(argStr(args[0]), 8), true
	case "vBool":
		v := in.newInput(argStr(args[0]), 8)
		switch v := v.(type) {
		case uint64:
			return v&1 == 1, true
		case *Term:
			return fromTerm(mkEq(mkExtract(0, 0, v), mkBV(1, 1))), true
		}
	case "vChoice":
		k, ok := asInt(args[1], types.Typ[types.Int])
		if !ok || k <= 0 {
			panic(unsupported{"vChoice: k must be a positive concrete int"})
		}
		v := in.newInput(argStr(args[0]), 64)
		switch v := v.(type) {
		case uint64:
			return v % uint64(k), true
		case *Term:
			// constrain and concretise
			if !in.feasibleAssume(mkCmp("bvult", v, mkBV(uint64(k), 64))) {
				panic(pathEnd{"assume", "vChoice"})
			}
			return uint64(in.concretize(v, int(k))), true
		}
	case "vStr":
		n, ok := asInt(args[1], types.Typ[types.Int])
		if !ok || n < 0 {
			panic(unsupported{"vStr: length must be concrete"})
		}
		name := argStr(args[0])
		b := make([]value, n)
		for i := range b {
			b[i] = in.newInput(name, 8)
		}
		return mkStr(b), true
	case "vBytes":
		n, ok := asInt(args[1], types.Typ[types.Int])
		if !ok || n < 0 {
			panic(unsupported{"vBytes: length must be concrete"})
		}
		name := argStr(args[0])
		b := make([]value, n)
		for i := range b {
			b[i] = in.newInput(name, 8)
		}
		return b, true
	case "vFloatAtom":
		full := in.inputName(argStr(args[0]))
		if in.concrete {
			ctr := in.names[argStr(args[0])] - 1
			return float64(int64(vhMix(in.seed, argStr(args[0]), ctr) % 1000)), true
		}
		t := mkVar(full, realSort)
		return t, true
	case "vAssume":
		switch c := args[0].(type) {
		case bool:
			if !c {
				in.stats.assumeEnds++
				panic(pathEnd{"assume", ""})
			}
		case *Term:
			if !in.feasibleAssume(c) {
				in.stats.assumeEnds++
				panic(pathEnd{"assume", ""})
			}
		}
		return nil, true
	case "vAssert":
		msg := ""
		if len(args) > 1 {
			if s, ok := args[1].(string); ok {
				msg = s
			} else {
				msg = "<symbolic message>"
			}
		}
		in.assert(args[0], msg)
		return nil, true
	case "vAnd":
		return fromTerm(mkAnd(boolTerm(args[0]), boolTerm(args[1]))), true
	case "vOr":
		return fromTerm(mkOr(boolTerm(args[0]), boolTerm(args[1]))), true
	case "vAll":
		r := tTrue
		for _, c := range args[0].([]value) {
			r = mkAnd(r, boolTerm(c))
		}
		return fromTerm(r), true
	case "vReach":
		in.reached[argStr(args[0])] = true
		return nil, true
	case "vObsU64", "vObsI64", "vObsBool", "vObsStr", "vObsInt":
		if in.concrete {
			var s string
			switch v := args[1].(type) {
			case uint64:
				if fn.Name() == "vObsI64" || fn.Name() == "vObsInt" {
					s = fmt.Sprintf("%d", int64(v))
				} else {
					s = fmt.Sprintf("%d", v)
				}
			case bool:
				s = fmt.Sprintf("%v", v)
			case string:
				s = fmt.Sprintf("%q", v)
			default:
				s = toString(v)
			}
			in.observed = append(in.observed, fmt.Sprintf("OBS %s=%s", argStr(args[0]), s))
		}
		return nil, true
	case "vStub":
		name := argStr(args[0])
		itf := args[1].(iface)
		in.stubs[name] = itf.v
		return nil, true
	case "vTier":
		if in.tier == "thorough" {
			return uint64(1), true
		}
		return uint64(0), true
	case "vSymbolic":
		return !in.concrete, true
	case "vNative":
		return false, true
	}
	return nil, false
}

// feasibleAssume adds c to the path condition if pc ∧ c is satisfiable.
func (in *Interp) feasibleAssume(c *Term) bool {
	if c.isConst() {
		return c.cval != 0
	}
	if in.pos < len(in.path) {
		// replaying a recorded prefix: this assumption passed before under
		// the same path condition
		in.addPC(c)
		return true
	}
	if kv, ok := in.known(c); ok {
		if kv {
			in.addPC(c)
		}
		return kv
	}
	if mv, ok := in.evalUnderModel(c); ok && mv {
		in.addPC(c)
		return true
	}
	if !in.feasible(c, true) {
		return false
	}
	in.addPC(c)
	return true
}

func (in *Interp) assert(c value, msg string) {
	if in.pos < len(in.path) && !in.concrete {
		// replaying a recorded prefix: discharged before under the same pc
		return
	}
	in.stats.assertQuery++
	switch c := c.(type) {
	case bool:
		if c {
			in.stats.discharged++
			return
		}
		in.reportViolation("assert", msg, nil)
		panic(pathEnd{"violation", msg})
	case *Term:
		if in.concrete {
			panic("symbolic assert in concrete mode")
		}
		t0 := time.Now()
		res, model := in.solver.check(in.pc, mkNot(c), true)
		if d := time.Since(t0); d > 2*time.Second && os.Getenv("GOSYM_SLOW") != "" {
			fmt.Fprintf(os.Stderr, "SLOW %.1fs %v assertion %q\n", d.Seconds(), res, msg)
			if os.Getenv("GOSYM_SLOW") == "2" {
				fmt.Fprintf(os.Stderr, "  term: %s\n", dumpTerm(c, 7))
			}
		}
		switch res {
		case rUnsat:
			in.stats.discharged++
			if !in.uncertain {
				in.implied[c] = implEnt{true, len(in.pc)}
			}
			return
		case rSat:
			in.reportViolation("assert", msg, model)
			panic(pathEnd{"violation", msg})
		default:
			in.stats.inconclusive++
			in.stats.samples = append(in.stats.samples, "INCONCLUSIVE assertion: "+msg)
			panic(pathEnd{"inconclusive", msg})
		}
	default:
		panic(fmt.Sprintf("vAssert: %T", c))
	}
}

func (in *Interp) reportViolation(kind, msg string, model map[string]uint64) {
	if in.concrete {
		in.observed = append(in.observed, "FAIL "+kind+": "+msg)
		return
	}
	if model == nil {
		res, m := in.solver.check(in.pc, nil, true)
		if res == rSat {
			model = m
		} else {
			model = map[string]uint64{}
			if res == rUnknown {
				// the path may not even be feasible and there is no witness:
				// an inconclusive end, not a violation
				in.stats.inconclusive++
				in.stats.samples = append(in.stats.samples, "INCONCLUSIVE (no model for the path of) "+kind+": "+msg)
				return
			}
			if res == rUnsat {
				// the path was only kept because of an unknown answer
				if os.Getenv("GOSYM_DEBUG2") != "" {
					fmt.Fprintf(os.Stderr, "UNSAT-PC at violation %s: path=%v\n", msg, in.path[:in.pos])
					for _, c := range in.pc {
						fmt.Fprintf(os.Stderr, "   pc: %s = %s\n", c.ref(), c.body())
					}
				}
				in.stats.unsatPC++
				return
			}
		}
	}
	for _, old := range in.stats.violations {
		if old.Kind == kind && stripDigits(old.Msg) == stripDigits(msg) {
			in.stats.dupViolations++
			return // one witness per failing assertion is enough
		}
	}
	v := violation{Harness: in.cfg0name, Msg: msg, Kind: kind, Inputs: map[string]string{}}
	for _, ir := range in.inputs {
		v.Inputs[ir.name] = fmt.Sprintf("%d", model[ir.name])
		v.Order = append(v.Order, ir.name)
	}
	for _, d := range in.path[:in.pos] {
		v.Path = append(v.Path, d.Chosen)
	}
	in.stats.violations = append(in.stats.violations, v)
}

// ---------------------------------------------------------------- running

type harnessResult struct {
	Name          string         `json:"name"`
	Pkg           string         `json:"pkg"`
	Paths         int            `json:"paths"`
	Decisions     int            `json:"decisions"`
	FeasQueries   int            `json:"feasibility_queries"`
	Assertions    int            `json:"assertion_obligations"`
	Discharged    int            `json:"discharged"`
	Inconclusive  int            `json:"inconclusive"`
	UnknownFeas   int            `json:"unknown_feasibility"`
	AssumeEnds    int            `json:"assume_ends"`
	Unsupported   map[string]int `json:"unsupported"`
	BoundEnds     map[string]int `json:"bound_ends"`
	Stubs         map[string]int `json:"stubs"`
	Violations    []violation    `json:"violations"`
	Reached       map[string]int `json:"reached"`
	Funcs         []string       `json:"functions_encoded"`
	SolverQueries int            `json:"solver_queries"`
	SolverSecs    float64        `json:"solver_s"`
	SolverErrors  []string       `json:"solver_errors"`
	Solver        string         `json:"solver"`
	WallS         float64        `json:"wall_s"`
	Complete      bool           `json:"complete"`
	Samples       []string       `json:"samples"`
	EngineErrors  []string       `json:"engine_errors"`
	Bounds        map[string]int `json:"bounds"`
	Traces        []string       `json:"traces,omitempty"`
	Frontier      [][]decision   `json:"-"`
	Workers       int            `json:"workers,omitempty"`
}

func (in *Interp) resetPath() {
	in.pc = in.pc[:0]
	in.pcSet = map[*Term]bool{}
	if in.implied == nil {
		in.implied = map[*Term]implEnt{}
	}
	in.pos = 0
	in.decCtr = 0
	in.decimals = nil
	pathZero = map[*Term]uint64{}
	in.model = nil
	in.modelMemo = nil
	in.steps = 0
	in.depth = 0
	in.names = map[string]int{}
	in.stubs = map[string]value{}
	in.inputs = in.inputs[:0]
	in.reached = map[string]bool{}
	in.observed = nil
	in.uncertain = false
	in.sched = nil
	in.curG = nil
	in.syncState = map[*value]int64{}
}

// runOnePath executes the harness once; returns the way the path ended.
func (in *Interp) runOnePath(fn *ssa.Function) (kind string, msg string) {
	defer func() {
		r := recover()
		if r == nil {
			return
		}
		switch r := r.(type) {
		case pathEnd:
			kind, msg = r.kind, r.msg
		case unsupported:
			kind, msg = "unsupported", r.msg
		case targetPanic:
			kind, msg = "panic", toString(r.v)
			if itf, ok := r.v.(iface); ok && itf.t != nil {
				if s, ok := itf.v.(string); ok {
					msg = s
				} else if em := in.errorMessage(itf); em != "" {
					msg = em
				}
			}
		case goroutineAbort:
			kind, msg = r.kind, r.msg
		default:
			kind, msg = "engine", fmt.Sprint(r)
			if os.Getenv("GOSYM_DEBUG") != "" {
				panic(r)
			}
		}
	}()
	in.call(nil, token.NoPos, fn, nil)
	if in.sched != nil {
		in.sched.finishMain()
	}
	return "ok", ""
}

// errorMessage tries to obtain err.Error() of a panic value (concrete only).
func (in *Interp) errorMessage(itf iface) (msg string) {
	defer func() {
		if r := recover(); r != nil {
			msg = ""
		}
	}()
	m := in.prog.LookupMethod(itf.t, nil, "Error")
	if m == nil {
		return ""
	}
	r := in.callSSA(nil, token.NoPos, m, []value{itf.v}, nil, false)
	if s, ok := r.(string); ok {
		return s
	}
	return ""
}

func (in *Interp) explore(fn *ssa.Function, name string, prefixes [][]decision) *harnessResult {
	start := time.Now()
	in.cfg0name = name
	in.stats = runStats{unsupported: map[string]int{}, boundEnds: map[string]int{}, stubsUsed: map[string]int{}, reachedAll: map[string]int{}}
	in.funcsSeen = map[string]bool{}
	res := &harnessResult{Name: name, Solver: in.cfg.solver}
	var engineErrs []string
	complete := true
	if prefixes == nil {
		prefixes = [][]decision{nil}
	}
	pi := 0
	in.path = append([]decision(nil), prefixes[0]...)
	in.base = len(in.path)
	in.implied = map[*Term]implEnt{}
	for {
		in.resetPath()
		kind, msg := in.runOnePath(fn)
		in.stats.paths++
		for k := range in.reached {
			in.stats.reachedAll[k]++
		}
		switch kind {
		case "ok", "assume", "violation", "done":
		case "frontier":
			in.stats.paths-- // handed to a worker, not a completed path
		case "panic":
			in.reportViolation("panic", "panic: "+msg, nil)
		case "deadlock":
			in.reportViolation("deadlock", msg, nil)
		case "unsupported":
			in.stats.unsupported[msg]++
		case "bound":
			if in.cfg.recursionIsViolation && strings.HasPrefix(msg, "call depth") {
				in.reportViolation("nontermination", "unbounded recursion: "+msg, nil)
			} else {
				in.stats.boundEnds[msg]++
			}
		case "engine":
			engineErrs = append(engineErrs, msg)
		}
		if len(in.stats.samples) < 6 && (kind == "ok" || kind == "violation") {
			in.stats.samples = append(in.stats.samples, in.describePath(kind))
		}
		if len(engineErrs) > 5 || len(in.stats.violations) >= 8 || in.stats.dupViolations > 200 {
			complete = false
			break
		}
		if !in.backtrack() {
			pi++
			if pi >= len(prefixes) {
				break
			}
			in.path = append([]decision(nil), prefixes[pi]...)
			in.base = len(in.path)
			in.implied = map[*Term]implEnt{}
		}
		if in.stats.paths >= in.cfg.maxPaths || time.Since(start) > in.cfg.wallLimit {
			complete = false
			break
		}
	}
	res.Frontier = in.frontier
	res.Paths = in.stats.paths
	res.Decisions = in.stats.decisions
	res.FeasQueries = in.stats.feasQueries
	res.Assertions = in.stats.assertQuery
	res.Discharged = in.stats.discharged
	res.Inconclusive = in.stats.inconclusive
	res.UnknownFeas = in.stats.unknownFeas
	res.AssumeEnds = in.stats.assumeEnds
	res.Unsupported = in.stats.unsupported
	res.BoundEnds = in.stats.boundEnds
	res.Stubs = in.stats.stubsUsed
	res.Violations = in.stats.violations
	res.Reached = in.stats.reachedAll
	res.Samples = in.stats.samples
	res.EngineErrors = engineErrs
	res.Complete = complete
	for f := range in.funcsSeen {
		res.Funcs = append(res.Funcs, f)
	}
	sort.Strings(res.Funcs)
	res.SolverQueries = in.solver.queries
	res.SolverSecs = in.solver.secs
	res.SolverErrors = in.solver.errs
	res.WallS = time.Since(start).Seconds()
	res.Bounds = map[string]int{"max_steps_per_path": in.cfg.maxSteps, "max_decisions_per_path": in.cfg.maxDecisions, "max_call_depth": in.cfg.maxDepth, "max_paths": in.cfg.maxPaths, "max_concretize": in.cfg.maxConcretize}
	return res
}

func (in *Interp) describePath(kind string) string {
	var sb strings.Builder
	fmt.Fprintf(&sb, "path %d (%s): decisions=[", in.stats.paths, kind)
	for i, d := range in.path {
		if i > 0 {
			sb.WriteByte(' ')
		}
		if i > 40 {
			sb.WriteString("…")
			break
		}
		fmt.Fprintf(&sb, "%d/%d", d.Chosen, d.K)
	}
	fmt.Fprintf(&sb, "] inputs=%d pc=%d conjuncts", len(in.inputs), len(in.pc))
	if len(in.pc) > 0 {
		last := in.pc[len(in.pc)-1]
		b := last.body()
		if last.op == "var" || last.op == "const" {
			b = last.ref()
		}
		if len(b) > 120 {
			b = b[:120] + "…"
		}
		fmt.Fprintf(&sb, " last=%s", b)
	}
	return sb.String()
}

// runConcrete runs the harness once in concrete mode and returns the trace.
func (in *Interp) runConcrete(fn *ssa.Function, name string, seed uint64, vals map[string]uint64) []string {
	in.cfg0name = name
	in.concrete = true
	in.seed = seed
	in.replayVals = vals
	in.stats = runStats{unsupported: map[string]int{}, boundEnds: map[string]int{}, stubsUsed: map[string]int{}, reachedAll: map[string]int{}}
	in.path = nil
	in.resetPath()
	kind, msg := in.runOnePath(fn)
	tr := append([]string(nil), in.observed...)
	switch kind {
	case "ok":
		tr = append(tr, "END ok")
	case "assume":
		tr = append(tr, "END assume")
	case "violation":
		tr = append(tr, "END violation")
	case "panic":
		tr = append(tr, "END panic")
		_ = msg
	default:
		tr = append(tr, "END "+kind+": "+msg)
	}
	in.concrete = false
	return tr
}
