package main

// If-conversion of small side-effect-free diamonds and triangles.
//
// A branch on a symbolic condition normally forks the path.  When both arms
// are single basic blocks that only compute scalar values and rejoin at once
// (`if x < 0 { ux = ^ux }`, `a && b`, `if v { bits |= m }`), the arms are
// executed speculatively and the phis of the join block become ite terms, so
// the path does not fork.  Anything that could fault, block, allocate or call
// disqualifies an arm, and the branch forks as before.

import (
	"go/token"
	"go/types"

	"golang.org/x/tools/go/ssa"
)

type mergeShape struct {
	ok         bool
	tArm, fArm *ssa.BasicBlock // nil when the edge goes straight to the join
	join       *ssa.BasicBlock
}

func isBasicScalar(t types.Type) bool {
	b, ok := t.Underlying().(*types.Basic)
	if !ok {
		return false
	}
	return b.Info()&(types.IsInteger|types.IsBoolean|types.IsFloat|types.IsString) != 0
}

// pureInstr reports whether executing instr can neither fault, fork, block nor
// have an effect other than defining its own SSA value.
func pureInstr(instr ssa.Instruction) bool {
	// Static filter only: reads and scalar computations.  Whatever would
	// fault, fork or be unsupported at run time aborts the speculative
	// execution (see tryMerge) and the branch forks as usual.
	switch x := instr.(type) {
	case *ssa.DebugRef:
		return true
	case *ssa.BinOp:
		return isBasicScalar(x.X.Type()) && isBasicScalar(x.Y.Type())
	case *ssa.UnOp:
		switch x.Op {
		case token.NOT, token.SUB, token.XOR, token.MUL:
			return true
		}
		return false
	case *ssa.Convert, *ssa.ChangeType, *ssa.ChangeInterface, *ssa.MakeInterface,
		*ssa.Field, *ssa.FieldAddr, *ssa.IndexAddr, *ssa.Index, *ssa.Extract, *ssa.Lookup, *ssa.TypeAssert:
		return true
	}
	return false
}

func isIntConstNonZero(c *ssa.Const) bool {
	if _, _, ok := intInfo(c.Type()); !ok {
		return false
	}
	return c.Uint64() != 0 || c.Int64() != 0
}

func pureArm(b *ssa.BasicBlock) (*ssa.BasicBlock, bool) {
	if len(b.Preds) != 1 || len(b.Succs) != 1 || len(b.Instrs) > 24 {
		return nil, false
	}
	for i, instr := range b.Instrs {
		if i == len(b.Instrs)-1 {
			if _, ok := instr.(*ssa.Jump); !ok {
				return nil, false
			}
			break
		}
		if !pureInstr(instr) {
			return nil, false
		}
	}
	return b.Succs[0], true
}

func (in *Interp) mergeShapeOf(b *ssa.BasicBlock) *mergeShape {
	if in.shapes == nil {
		in.shapes = map[*ssa.BasicBlock]*mergeShape{}
	}
	if s, ok := in.shapes[b]; ok {
		return s
	}
	s := &mergeShape{}
	in.shapes[b] = s
	t, f := b.Succs[0], b.Succs[1]
	if t == f {
		return s
	}
	tj, tok := pureArm(t)
	fj, fok := pureArm(f)
	switch {
	case tok && fok && tj == fj: // diamond
		s.tArm, s.fArm, s.join = t, f, tj
	case tok && tj == f: // triangle, true arm
		s.tArm, s.join = t, f
	case fok && fj == t: // triangle, false arm
		s.fArm, s.join = f, t
	default:
		return s
	}
	// the join's phis must all be scalars
	for _, instr := range s.join.Instrs {
		phi, ok := instr.(*ssa.Phi)
		if !ok {
			break
		}
		if !isBasicScalar(phi.Type()) {
			return s
		}
		// Go's int/uint are the types of lengths, indices and offsets: a merged
		// (ite) value of such a type soon lands in a slice bound or an index and
		// makes the shape symbolic, which costs far more than the fork saved
		// (sort.Search's i/j, an iterator's read position).  Fixed-width
		// integers, bytes and bools carry data and are merged.
		if b, ok := phi.Type().Underlying().(*types.Basic); ok {
			switch b.Kind() {
			case types.Int, types.Uint, types.Uintptr:
				return s
			}
		}
	}
	s.ok = true
	return s
}

// tryMerge if-converts the branch; false means "fork as usual".
func (in *Interp) tryMerge(fr *frame, instr *ssa.If, cond *Term) bool {
	if in.noMerge || fr.tolerant {
		return false
	}
	b := instr.Block()
	s := in.mergeShapeOf(b)
	if !s.ok {
		return false
	}
	run := func(arm *ssa.BasicBlock) (ok bool) {
		if arm == nil {
			return true
		}
		defer func() {
			if r := recover(); r != nil {
				ok = false
			}
		}()
		for _, x := range arm.Instrs[:len(arm.Instrs)-1] {
			in.steps++
			in.visitInstr(fr, x)
		}
		return true
	}
	// speculative execution must not create decisions
	save := in.noFork
	in.noFork = true
	okT := run(s.tArm)
	okF := okT && run(s.fArm)
	in.noFork = save
	if !okT || !okF {
		return false
	}
	predT, predF := s.tArm, s.fArm
	if predT == nil {
		predT = b
	}
	if predF == nil {
		predF = b
	}
	it, iF := -1, -1
	for i, p := range s.join.Preds {
		if p == predT {
			it = i
		}
		if p == predF {
			iF = i
		}
	}
	if it < 0 || iF < 0 {
		return false
	}
	var phis []*ssa.Phi
	var vals []value
	for _, x := range s.join.Instrs {
		phi, ok := x.(*ssa.Phi)
		if !ok {
			break
		}
		a, c := fr.get(phi.Edges[it]), fr.get(phi.Edges[iF])
		v, ok := mergeValues(phi.Type(), cond, a, c)
		if !ok {
			return false
		}
		phis = append(phis, phi)
		vals = append(vals, v)
	}
	for i, phi := range phis {
		fr.set(phi, vals[i])
	}
	fr.prevBlock, fr.block = predT, s.join
	fr.phisDone = true
	in.merges++
	return true
}

func mergeValues(t types.Type, cond *Term, a, b value) (value, bool) {
	if w, _, ok := intInfo(t); ok {
		at, aok := a.(*Term)
		bt, bok := b.(*Term)
		au, auk := a.(uint64)
		bu, buk := b.(uint64)
		if auk && buk && au == bu {
			return a, true
		}
		if !aok && !auk || !bok && !buk {
			return nil, false
		}
		if auk {
			at = mkBV(au, w)
		}
		if buk {
			bt = mkBV(bu, w)
		}
		return fromTerm(mkIte(cond, at, bt)), true
	}
	if isBool(t) {
		var at, bt *Term
		switch x := a.(type) {
		case bool:
			at = mkBool(x)
		case *Term:
			at = x
		default:
			return nil, false
		}
		switch x := b.(type) {
		case bool:
			bt = mkBool(x)
		case *Term:
			bt = x
		default:
			return nil, false
		}
		return fromTerm(mkIte(cond, at, bt)), true
	}
	if isFloat(t) {
		af, aok := a.(float64)
		bf, bok := b.(float64)
		if aok && bok {
			if af == bf {
				return a, true
			}
			return nil, false
		}
		at, aok := a.(*Term)
		bt, bok := b.(*Term)
		if aok && bok {
			return mkIte(cond, at, bt), true
		}
		return nil, false
	}
	if isString(t) {
		as, aok := a.(string)
		bs, bok := b.(string)
		if aok && bok && as == bs {
			return a, true
		}
		if strLen(a) == strLen(b) {
			out := make([]value, strLen(a))
			for i := range out {
				out[i] = fromTerm(mkIte(cond, toTerm(strByte(a, i), 8), toTerm(strByte(b, i), 8)))
			}
			return mkStr(out), true
		}
		return nil, false
	}
	return nil, false
}
