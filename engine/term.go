package main

// Hash-consed SMT terms with light simplification.
//
// Sorts: bit-vectors of width 1..64, Bool, and Real (used only for "ordered
// atom" floats: compare / copy, no arithmetic).

import (
	"fmt"
	"math/bits"
	"strconv"
	"strings"
)

type sortKind int

const (
	sBV sortKind = iota
	sBool
	sReal
)

type Sort struct {
	k sortKind
	w int
}

func (s Sort) smt() string {
	switch s.k {
	case sBV:
		return fmt.Sprintf("(_ BitVec %d)", s.w)
	case sBool:
		return "Bool"
	case sReal:
		return "Real"
	}
	panic("sort")
}

var boolSort = Sort{sBool, 0}
var realSort = Sort{sReal, 0}

func bvSort(w int) Sort { return Sort{sBV, w} }

type Term struct {
	id   int
	op   string
	args []*Term
	sort Sort
	cval uint64 // for const (bool: 0/1)
	name string // for var
	p1   int    // extract hi / extend amount
	p2   int    // extract lo
	// set once the term has been defined in a solver (per solver id bitmask)
	defined uint32
	k0, k1  uint64 // known-zero / known-one bits (bit-vectors)
}

func (t *Term) isConst() bool { return t.op == "const" }
func (t *Term) String() string {
	return t.ref()
}

type termTable struct {
	m    map[string]*Term
	all  []*Term
	vars []*Term
}

var tt = &termTable{m: map[string]*Term{}}

// noWires disables the wiring normal form (wires.go); set by -nowires and by
// the term self-test to obtain the reference construction.
var noWires bool

func maskW(w int) uint64 {
	if w >= 64 {
		return ^uint64(0)
	}
	return (uint64(1) << uint(w)) - 1
}

func (tb *termTable) intern(op string, sort Sort, cval uint64, name string, p1, p2 int, args ...*Term) *Term {
	var sb strings.Builder
	sb.WriteString(op)
	sb.WriteByte('|')
	sb.WriteString(strconv.Itoa(int(sort.k)))
	sb.WriteByte(':')
	sb.WriteString(strconv.Itoa(sort.w))
	sb.WriteByte('|')
	if op == "const" {
		sb.WriteString(strconv.FormatUint(cval, 16))
	} else if op == "var" {
		sb.WriteString(name)
	} else {
		sb.WriteString(strconv.Itoa(p1))
		sb.WriteByte(',')
		sb.WriteString(strconv.Itoa(p2))
		for _, a := range args {
			sb.WriteByte(' ')
			sb.WriteString(strconv.Itoa(a.id))
		}
	}
	key := sb.String()
	if t, ok := tb.m[key]; ok {
		return t
	}
	t := &Term{id: len(tb.all), op: op, args: args, sort: sort, cval: cval, name: name, p1: p1, p2: p2}
	tb.all = append(tb.all, t)
	tb.m[key] = t
	if op == "var" {
		tb.vars = append(tb.vars, t)
	}
	t.computeKnown()
	if sort.k == sBV && op != "const" && t.k0|t.k1 == maskW(sort.w) {
		// every bit is known: the term is a constant
		c := mkBV(t.k1, sort.w)
		tb.m[key] = c
		return c
	}
	return t
}

func mkVar(name string, s Sort) *Term { return tt.intern("var", s, 0, name, 0, 0) }
func mkBV(v uint64, w int) *Term      { return tt.intern("const", bvSort(w), v&maskW(w), "", 0, 0) }
func mkBool(b bool) *Term {
	if b {
		return tt.intern("const", boolSort, 1, "", 0, 0)
	}
	return tt.intern("const", boolSort, 0, "", 0, 0)
}
func mkRealConst(v int64) *Term {
	return tt.intern("const", realSort, uint64(v), "", 0, 0)
}

var tTrue, tFalse *Term

func init() {
	tTrue = mkBool(true)
	tFalse = mkBool(false)
}

func sext(v uint64, w int) int64 {
	if w >= 64 {
		return int64(v)
	}
	sh := uint(64 - w)
	return int64(v<<sh) >> sh
}

// ref returns the SMT-LIB reference for t (a name for defined composite terms).
func (t *Term) ref() string {
	switch t.op {
	case "const":
		switch t.sort.k {
		case sBool:
			if t.cval != 0 {
				return "true"
			}
			return "false"
		case sReal:
			v := int64(t.cval)
			if v < 0 {
				return fmt.Sprintf("(- %d.0)", -v)
			}
			return fmt.Sprintf("%d.0", v)
		default:
			if t.sort.w%4 == 0 {
				return fmt.Sprintf("#x%0*x", t.sort.w/4, t.cval)
			}
			return fmt.Sprintf("#b%0*b", t.sort.w, t.cval)
		}
	case "var":
		return "|" + t.name + "|"
	}
	return "t" + strconv.Itoa(t.id)
}

// body returns the SMT-LIB expression of a composite term in terms of refs.
func (t *Term) body() string {
	var sb strings.Builder
	switch t.op {
	case "extract":
		fmt.Fprintf(&sb, "((_ extract %d %d) %s)", t.p1, t.p2, t.args[0].ref())
		return sb.String()
	case "zext":
		fmt.Fprintf(&sb, "((_ zero_extend %d) %s)", t.p1, t.args[0].ref())
		return sb.String()
	case "sext":
		fmt.Fprintf(&sb, "((_ sign_extend %d) %s)", t.p1, t.args[0].ref())
		return sb.String()
	case "uf":
		sb.WriteString("(")
		sb.WriteString(t.name)
		for _, a := range t.args {
			sb.WriteByte(' ')
			sb.WriteString(a.ref())
		}
		sb.WriteString(")")
		return sb.String()
	}
	sb.WriteByte('(')
	sb.WriteString(t.op)
	for _, a := range t.args {
		sb.WriteByte(' ')
		sb.WriteString(a.ref())
	}
	sb.WriteByte(')')
	return sb.String()
}

// ---------------------------------------------------------------- builders

func mkNot(a *Term) *Term {
	if a.isConst() {
		return mkBool(a.cval == 0)
	}
	if a.op == "not" {
		return a.args[0]
	}
	return tt.intern("not", boolSort, 0, "", 0, 0, a)
}

func mkAnd(a, b *Term) *Term {
	if a.isConst() {
		if a.cval == 0 {
			return tFalse
		}
		return b
	}
	if b.isConst() {
		if b.cval == 0 {
			return tFalse
		}
		return a
	}
	if a == b {
		return a
	}
	return tt.intern("and", boolSort, 0, "", 0, 0, a, b)
}

func mkOr(a, b *Term) *Term {
	if a.isConst() {
		if a.cval != 0 {
			return tTrue
		}
		return b
	}
	if b.isConst() {
		if b.cval != 0 {
			return tTrue
		}
		return a
	}
	if a == b {
		return a
	}
	return tt.intern("or", boolSort, 0, "", 0, 0, a, b)
}

func mkIte(c, a, b *Term) *Term {
	if c.isConst() {
		if c.cval != 0 {
			return a
		}
		return b
	}
	if a == b {
		return a
	}
	if a.sort.k == sBool {
		if a.isConst() && b.isConst() {
			if a.cval != 0 {
				return c
			}
			return mkNot(c)
		}
	}
	return tt.intern("ite", a.sort, 0, "", 0, 0, c, a, b)
}

func mkEq(a, b *Term) *Term {
	if a == b {
		return tTrue
	}
	if a.isConst() && b.isConst() {
		return mkBool(a.cval == b.cval)
	}
	if a.sort.k == sBool {
		if a.isConst() {
			if a.cval != 0 {
				return b
			}
			return mkNot(b)
		}
		if b.isConst() {
			if b.cval != 0 {
				return a
			}
			return mkNot(a)
		}
	}
	if a.sort.k == sBV {
		// known bits that disagree
		if a.k1&b.k0 != 0 || a.k0&b.k1 != 0 {
			return tFalse
		}
	}
	if a.id > b.id {
		a, b = b, a
	}
	return tt.intern("=", boolSort, 0, "", 0, 0, a, b)
}

func foldBV(op string, w int, x, y uint64) (uint64, bool) {
	m := maskW(w)
	switch op {
	case "bvadd":
		return (x + y) & m, true
	case "bvsub":
		return (x - y) & m, true
	case "bvmul":
		return (x * y) & m, true
	case "bvand":
		return x & y, true
	case "bvor":
		return x | y, true
	case "bvxor":
		return x ^ y, true
	case "bvudiv":
		if y == 0 {
			return m, true
		}
		return x / y, true
	case "bvurem":
		if y == 0 {
			return x, true
		}
		return x % y, true
	case "bvsdiv":
		sx, sy := sext(x, w), sext(y, w)
		if sy == 0 {
			if sx < 0 {
				return 1, true
			}
			return m, true
		}
		if sy == -1 {
			return uint64(-sx) & m, true
		}
		return uint64(sx/sy) & m, true
	case "bvsrem":
		sx, sy := sext(x, w), sext(y, w)
		if sy == 0 {
			return x, true
		}
		if sy == -1 {
			return 0, true
		}
		return uint64(sx%sy) & m, true
	case "bvshl":
		if y >= uint64(w) {
			return 0, true
		}
		return (x << y) & m, true
	case "bvlshr":
		if y >= uint64(w) {
			return 0, true
		}
		return x >> y, true
	case "bvashr":
		sx := sext(x, w)
		if y >= uint64(w) {
			y = uint64(w - 1)
		}
		return uint64(sx>>y) & m, true
	}
	return 0, false
}

func mkBin(op string, a, b *Term) *Term {
	w := a.sort.w
	if a.sort != b.sort {
		panic(fmt.Sprintf("mkBin %s: sort mismatch %v %v", op, a.sort, b.sort))
	}
	if a.isConst() && b.isConst() {
		if v, ok := foldBV(op, w, a.cval, b.cval); ok {
			return mkBV(v, w)
		}
	}
	if !noWires {
		switch op {
		case "bvand", "bvor", "bvxor":
			if r, ok := wireBitop(op, a, b); ok {
				return r
			}
		case "bvshl", "bvlshr", "bvashr":
			if b.isConst() {
				if r, ok := wireShift(op, a, b.cval); ok {
					return r
				}
			}
		}
	}
	// identities
	switch op {
	case "bvadd":
		if a.isConst() && a.cval == 0 {
			return b
		}
		if b.isConst() && b.cval == 0 {
			return a
		}
		if a.isConst() { // canonical: const on right
			a, b = b, a
		}
		// a + (x - a) = x
		if b.op == "bvsub" && b.args[1] == a {
			return b.args[0]
		}
		if a.op == "bvsub" && a.args[1] == b {
			return a.args[0]
		}
	case "bvsub":
		if b.isConst() && b.cval == 0 {
			return a
		}
		if a == b {
			return mkBV(0, w)
		}
		// (x + b) - b = x
		if a.op == "bvadd" {
			if a.args[1] == b {
				return a.args[0]
			}
			if a.args[0] == b {
				return a.args[1]
			}
		}
	case "bvmul":
		if a.isConst() {
			a, b = b, a
		}
		if b.isConst() {
			if b.cval == 0 {
				return mkBV(0, w)
			}
			if b.cval == 1 {
				return a
			}
		}
	case "bvand":
		if a.isConst() {
			a, b = b, a
		}
		if b.isConst() {
			if b.cval == 0 {
				return mkBV(0, w)
			}
			if b.cval == maskW(w) {
				return a
			}
		}
		if a == b {
			return a
		}
	case "bvor":
		if a.isConst() {
			a, b = b, a
		}
		if b.isConst() {
			if b.cval == 0 {
				return a
			}
			if b.cval == maskW(w) {
				return b
			}
		}
		if a == b {
			return a
		}
	case "bvxor":
		if a.isConst() {
			a, b = b, a
		}
		if b.isConst() && b.cval == 0 {
			return a
		}
		if a == b {
			return mkBV(0, w)
		}
	case "bvshl", "bvlshr", "bvashr":
		if b.isConst() && b.cval == 0 {
			return a
		}
		if a.isConst() && a.cval == 0 {
			return a
		}
		if b.isConst() && b.cval >= uint64(w) && op != "bvashr" {
			return mkBV(0, w)
		}
	case "bvudiv":
		if b.isConst() && b.cval == 1 {
			return a
		}
	}
	return tt.intern(op, a.sort, 0, "", 0, 0, a, b)
}

func mkBVNot(a *Term) *Term {
	if a.isConst() {
		return mkBV(^a.cval, a.sort.w)
	}
	if a.op == "bvnot" {
		return a.args[0]
	}
	return tt.intern("bvnot", a.sort, 0, "", 0, 0, a)
}

func mkBVNeg(a *Term) *Term {
	if a.isConst() {
		return mkBV(-a.cval, a.sort.w)
	}
	return tt.intern("bvneg", a.sort, 0, "", 0, 0, a)
}

// mkCmp builds a comparison: op in bvult bvule bvslt bvsle (and for reals < <=).
func mkCmp(op string, a, b *Term) *Term {
	if a.sort != b.sort {
		panic(fmt.Sprintf("mkCmp %s: sort mismatch %v %v", op, a.sort, b.sort))
	}
	if a.isConst() && b.isConst() {
		w := a.sort.w
		switch op {
		case "bvult":
			return mkBool(a.cval < b.cval)
		case "bvule":
			return mkBool(a.cval <= b.cval)
		case "bvslt":
			return mkBool(sext(a.cval, w) < sext(b.cval, w))
		case "bvsle":
			return mkBool(sext(a.cval, w) <= sext(b.cval, w))
		case "<":
			return mkBool(int64(a.cval) < int64(b.cval))
		case "<=":
			return mkBool(int64(a.cval) <= int64(b.cval))
		}
	}
	if a == b {
		switch op {
		case "bvult", "bvslt", "<":
			return tFalse
		default:
			return tTrue
		}
	}
	if a.sort.k == sBV {
		switch op {
		case "bvult":
			if a.umax() < b.umin() {
				return tTrue
			}
			if a.umin() >= b.umax() {
				return tFalse
			}
		case "bvule":
			if a.umax() <= b.umin() {
				return tTrue
			}
			if a.umin() > b.umax() {
				return tFalse
			}
		case "bvslt", "bvsle":
			// both known non-negative: same as unsigned
			sb := uint64(1) << uint(a.sort.w-1)
			if a.k0&sb != 0 && b.k0&sb != 0 {
				if op == "bvslt" {
					return mkCmp("bvult", a, b)
				}
				return mkCmp("bvule", a, b)
			}
		}
	}
	return tt.intern(op, boolSort, 0, "", 0, 0, a, b)
}

func mkExtract(hi, lo int, a *Term) *Term {
	if lo == 0 && hi == a.sort.w-1 {
		return a
	}
	w := hi - lo + 1
	if a.isConst() {
		return mkBV(a.cval>>uint(lo), w)
	}
	if !noWires {
		return fromWires(wiresOf(a)[lo : hi+1])
	}
	if a.op == "zext" || a.op == "sext" {
		inner := a.args[0]
		if hi < inner.sort.w {
			return mkExtract(hi, lo, inner)
		}
		if a.op == "zext" && lo >= inner.sort.w {
			return mkBV(0, w)
		}
	}
	if a.op == "extract" {
		return mkExtract(hi+a.p2, lo+a.p2, a.args[0])
	}
	if a.op == "concat" {
		lw := a.args[1].sort.w
		if hi < lw {
			return mkExtract(hi, lo, a.args[1])
		}
		if lo >= lw {
			return mkExtract(hi-lw, lo-lw, a.args[0])
		}
	}
	return tt.intern("extract", bvSort(w), 0, "", hi, lo, a)
}

func mkZext(a *Term, w int) *Term {
	if a.sort.w == w {
		return a
	}
	if a.sort.w > w {
		return mkExtract(w-1, 0, a)
	}
	if a.isConst() {
		return mkBV(a.cval, w)
	}
	if !noWires {
		ws := wiresOf(a)
		for len(ws) < w {
			ws = append(ws, wire{nil, 0})
		}
		return fromWires(ws)
	}
	if a.op == "zext" {
		return mkZext(a.args[0], w)
	}
	return tt.intern("zext", bvSort(w), 0, "", w-a.sort.w, 0, a)
}

func mkSext(a *Term, w int) *Term {
	if a.sort.w == w {
		return a
	}
	if a.sort.w > w {
		return mkExtract(w-1, 0, a)
	}
	if a.isConst() {
		return mkBV(uint64(sext(a.cval, a.sort.w)), w)
	}
	if a.op == "zext" { // zero-extended value is non-negative
		return mkZext(a.args[0], w)
	}
	if !noWires {
		top := uint(a.sort.w - 1)
		if a.k0>>top&1 == 1 {
			return mkZext(a, w)
		}
		if a.k1>>top&1 == 1 {
			ws := wiresOf(a)
			for len(ws) < w {
				ws = append(ws, wire{nil, 1})
			}
			return fromWires(ws)
		}
	}
	return tt.intern("sext", bvSort(w), 0, "", w-a.sort.w, 0, a)
}

func mkConcat(hi, lo *Term) *Term {
	w := hi.sort.w + lo.sort.w
	if hi.isConst() && lo.isConst() {
		return mkBV(hi.cval<<uint(lo.sort.w)|lo.cval, w)
	}
	if !noWires {
		return fromWires(append(wiresOf(lo), wiresOf(hi)...))
	}
	if hi.isConst() && hi.cval == 0 {
		return mkZext(lo, w)
	}
	return tt.intern("concat", bvSort(w), 0, "", 0, 0, hi, lo)
}

// uninterpreted functions ------------------------------------------------

type ufDecl struct {
	name string
	args []Sort
	res  Sort
}

var ufDecls = map[string]*ufDecl{}
var ufOrder []*ufDecl

func mkUF(name string, res Sort, args ...*Term) *Term {
	d, ok := ufDecls[name]
	if !ok {
		d = &ufDecl{name: name, res: res}
		for _, a := range args {
			d.args = append(d.args, a.sort)
		}
		ufDecls[name] = d
		ufOrder = append(ufOrder, d)
	}
	return tt.intern("uf", res, 0, name, 0, 0, args...)
}

// ---------------------------------------------------------------- evaluation

// evalTerm evaluates t under the assignment (var name -> value). Missing
// variables evaluate to 0. Real-sorted and UF terms cannot be evaluated
// (ok=false).
func evalTerm(t *Term, asg map[string]uint64, memo map[*Term]uint64) (uint64, bool) {
	if v, ok := memo[t]; ok {
		return v, true
	}
	// iterative post-order to avoid deep recursion
	type fr struct {
		t *Term
		i int
	}
	stack := []fr{{t, 0}}
	for len(stack) > 0 {
		top := &stack[len(stack)-1]
		cur := top.t
		if _, ok := memo[cur]; ok {
			stack = stack[:len(stack)-1]
			continue
		}
		if top.i < len(cur.args) {
			a := cur.args[top.i]
			top.i++
			if _, ok := memo[a]; !ok {
				stack = append(stack, fr{a, 0})
			}
			continue
		}
		v, ok := evalNode(cur, asg, memo)
		if !ok {
			return 0, false
		}
		memo[cur] = v
		stack = stack[:len(stack)-1]
	}
	return memo[t], true
}

func b2u(b bool) uint64 {
	if b {
		return 1
	}
	return 0
}

func evalNode(t *Term, asg map[string]uint64, memo map[*Term]uint64) (uint64, bool) {
	if t.sort.k == sReal {
		if t.op == "const" {
			return t.cval, true
		}
		if t.op == "var" {
			return asg[t.name], true // integers only in our models
		}
	}
	a := func(i int) uint64 { return memo[t.args[i]] }
	switch t.op {
	case "const":
		return t.cval, true
	case "var":
		return asg[t.name] & maskOf(t.sort), true
	case "not":
		return a(0) ^ 1, true
	case "and":
		return a(0) & a(1), true
	case "or":
		return a(0) | a(1), true
	case "ite":
		if a(0) != 0 {
			return a(1), true
		}
		return a(2), true
	case "=":
		return b2u(a(0) == a(1)), true
	case "bvult":
		return b2u(a(0) < a(1)), true
	case "bvule":
		return b2u(a(0) <= a(1)), true
	case "bvslt":
		w := t.args[0].sort.w
		return b2u(sext(a(0), w) < sext(a(1), w)), true
	case "bvsle":
		w := t.args[0].sort.w
		return b2u(sext(a(0), w) <= sext(a(1), w)), true
	case "<":
		return b2u(int64(a(0)) < int64(a(1))), true
	case "<=":
		return b2u(int64(a(0)) <= int64(a(1))), true
	case "bvnot":
		return ^a(0) & maskW(t.sort.w), true
	case "bvneg":
		return -a(0) & maskW(t.sort.w), true
	case "extract":
		return (a(0) >> uint(t.p2)) & maskW(t.sort.w), true
	case "zext":
		return a(0), true
	case "sext":
		return uint64(sext(a(0), t.args[0].sort.w)) & maskW(t.sort.w), true
	case "concat":
		return (a(0)<<uint(t.args[1].sort.w) | a(1)) & maskW(t.sort.w), true
	case "uf":
		return 0, false
	}
	if v, ok := foldBV(t.op, t.sort.w, a(0), a(1)); ok {
		return v, true
	}
	return 0, false
}

func maskOf(s Sort) uint64 {
	if s.k == sBool {
		return 1
	}
	if s.k == sReal {
		return ^uint64(0)
	}
	return maskW(s.w)
}

var _ = bits.Len

// dumpTerm prints a term as an S-expression down to the given depth (debugging).
func dumpTerm(t *Term, depth int) string {
	if t.op == "const" || t.op == "var" {
		return t.ref()
	}
	if depth == 0 {
		return t.ref()
	}
	s := "(" + t.op
	if t.op == "extract" {
		s += fmt.Sprintf("[%d:%d]", t.p1, t.p2)
	}
	for _, a := range t.args {
		s += " " + dumpTerm(a, depth-1)
	}
	return s + ")"
}
