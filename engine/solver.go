package main

import (
	"bufio"
	"fmt"
	"io"
	"os"
	"os/exec"
	"strconv"
	"strings"
	"time"
)

type satResult int

const (
	rUnsat satResult = iota
	rSat
	rUnknown
)

func (r satResult) String() string {
	return [...]string{"unsat", "sat", "unknown"}[r]
}

type Solver struct {
	lines   chan string // solver output, "\x00EOF" on end of stream
	restarts int
	kind    string
	idx     uint32 // bit in Term.defined
	cmd     *exec.Cmd
	in      io.WriteCloser
	out     *bufio.Reader
	stack   []*Term // asserted path-condition conjuncts, one push level each
	nUF     int
	nVars   int
	queries int
	secs    float64
	errs    []string
	log     *os.File
	buf     strings.Builder
	timeout int // ms
	timeouts int // queries ended by the watchdog
}

var solverCount uint32

func newSolver(kind string, timeoutMs int) (*Solver, error) {
	s := &Solver{kind: kind, idx: 1 << solverCount, timeout: timeoutMs}
	solverCount++
	if err := s.start(); err != nil {
		return nil, err
	}
	return s, nil
}

// start launches the solver process (also used to restart a wedged one).
func (s *Solver) start() error {
	var cmd *exec.Cmd
	timeoutMs := s.timeout
	switch s.kind {
	case "z3":
		cmd = exec.Command("z3", "-in")
	case "z3new":
		cmd = exec.Command("z3-new", "-in")
	case "cvc5":
		cmd = exec.Command("cvc5", "--incremental", "--produce-models", "--tlimit-per="+strconv.Itoa(timeoutMs))
	case "cvc5int":
		cmd = exec.Command("cvc5", "--incremental", "--produce-models", "--solve-bv-as-int=sum", "--tlimit-per="+strconv.Itoa(timeoutMs))
	default:
		return fmt.Errorf("unknown solver %q", s.kind)
	}
	in, err := cmd.StdinPipe()
	if err != nil {
		return err
	}
	outp, err := cmd.StdoutPipe()
	if err != nil {
		return err
	}
	cmd.Stderr = cmd.Stdout
	if err := cmd.Start(); err != nil {
		return err
	}
	s.cmd, s.in = cmd, in
	s.out = bufio.NewReaderSize(outp, 1<<16)
	lines := make(chan string, 1024)
	s.lines = lines
	rd := s.out
	go func() {
		for {
			line, err := rd.ReadString('\n')
			if err != nil {
				lines <- "\x00EOF"
				close(lines)
				return
			}
			lines <- line
		}
	}()
	s.buf.Reset()
	s.stack = nil
	s.nUF = 0
	if p := os.Getenv("GOSYM_SMTLOG"); p != "" && s.log == nil {
		s.log, _ = os.Create(fmt.Sprintf("%s.%s.%d.smt2", p, s.kind, solverCount))
	}
	s.send("(set-option :global-declarations true)")
	s.send("(set-option :produce-models true)")
	if strings.HasPrefix(s.kind, "cvc5") {
		s.send("(set-logic ALL)")
	} else {
		s.send(fmt.Sprintf("(set-option :timeout %d)", timeoutMs))
	}
	s.sync()
	return nil
}

// restart kills a solver that did not answer within its time limit (z3's own
// :timeout is not always honoured) and starts a fresh one; every term must be
// defined again.
func (s *Solver) restart() {
	if s.cmd != nil && s.cmd.Process != nil {
		s.cmd.Process.Kill()
		go s.cmd.Wait()
	}
	s.restarts++
	for _, t := range tt.all {
		t.defined &^= s.idx
	}
	if err := s.start(); err != nil {
		s.errs = append(s.errs, "solver restart failed: "+err.Error())
	}
}

func (s *Solver) close() {
	if s == nil || s.cmd == nil {
		return
	}
	s.in.Close()
	done := make(chan struct{})
	go func() { s.cmd.Wait(); close(done) }()
	select {
	case <-done:
	case <-time.After(2 * time.Second):
		s.cmd.Process.Kill()
	}
	s.cmd = nil
}

func (s *Solver) send(cmd string) {
	s.buf.WriteString(cmd)
	s.buf.WriteByte('\n')
}

func (s *Solver) flush() {
	if s.buf.Len() == 0 {
		return
	}
	if s.log != nil {
		s.log.WriteString(s.buf.String())
	}
	io.WriteString(s.in, s.buf.String())
	s.buf.Reset()
}

// sync flushes pending commands and reads all output up to a marker.  A
// solver that stays silent for its time limit plus a grace period is killed
// and restarted; the pending query is answered "unknown".
func (s *Solver) sync() []string {
	s.send(`(echo "@@DONE@@")`)
	s.flush()
	var lines []string
	deadline := time.NewTimer(time.Duration(s.timeout)*time.Millisecond + 20*time.Second)
	defer deadline.Stop()
	for {
		var line string
		select {
		case line = <-s.lines:
		case <-deadline.C:
			s.timeouts++
			s.restart()
			return append(lines, "timeout")
		}
		if line == "\x00EOF" || line == "" && s.lines == nil {
			s.errs = append(s.errs, "solver died")
			lines = append(lines, "(error \"solver died\")")
			return lines
		}
		line = strings.TrimSpace(line)
		if strings.Contains(line, "@@DONE@@") {
			break
		}
		if line == "" {
			continue
		}
		if strings.HasPrefix(line, "(error") {
			s.errs = append(s.errs, line)
		}
		lines = append(lines, line)
	}
	return lines
}

// define makes sure t (and everything below it) is known to the solver.
func (s *Solver) define(t *Term) {
	if t.defined&s.idx != 0 {
		return
	}
	type fr struct {
		t *Term
		i int
	}
	stack := []fr{{t, 0}}
	for len(stack) > 0 {
		top := &stack[len(stack)-1]
		cur := top.t
		if cur.defined&s.idx != 0 {
			stack = stack[:len(stack)-1]
			continue
		}
		if top.i < len(cur.args) {
			a := cur.args[top.i]
			top.i++
			if a.defined&s.idx == 0 {
				stack = append(stack, fr{a, 0})
			}
			continue
		}
		switch cur.op {
		case "const":
		case "var":
			s.send(fmt.Sprintf("(declare-const %s %s)", cur.ref(), cur.sort.smt()))
		default:
			if cur.op == "uf" {
				s.declareUFs()
			}
			s.send(fmt.Sprintf("(define-fun %s () %s %s)", cur.ref(), cur.sort.smt(), cur.body()))
		}
		cur.defined |= s.idx
		stack = stack[:len(stack)-1]
	}
}

func (s *Solver) declareUFs() {
	for s.nUF < len(ufOrder) {
		d := ufOrder[s.nUF]
		var as []string
		for _, a := range d.args {
			as = append(as, a.smt())
		}
		s.send(fmt.Sprintf("(declare-fun %s (%s) %s)", d.name, strings.Join(as, " "), d.res.smt()))
		s.nUF++
	}
}

// align makes the solver's assertion stack equal to pc.
func (s *Solver) align(pc []*Term) {
	n := 0
	for n < len(pc) && n < len(s.stack) && pc[n] == s.stack[n] {
		n++
	}
	if k := len(s.stack) - n; k > 0 {
		s.send(fmt.Sprintf("(pop %d)", k))
		s.stack = s.stack[:n]
	}
	for _, c := range pc[n:] {
		s.define(c)
		s.send("(push 1)")
		s.send(fmt.Sprintf("(assert %s)", c.ref()))
		s.stack = append(s.stack, c)
	}
}

// check decides satisfiability of pc ∧ extra. If wantModel and the answer is
// sat, the values of all variables known to this solver are returned.
func (s *Solver) check(pc []*Term, extra *Term, wantModel bool) (satResult, map[string]uint64) {
	start := time.Now()
	defer func() { s.secs += time.Since(start).Seconds(); s.queries++ }()
	s.align(pc)
	if extra != nil {
		s.define(extra)
		s.send("(push 1)")
		s.send(fmt.Sprintf("(assert %s)", extra.ref()))
	}
	s.send("(check-sat)")
	nerr := len(s.errs)
	r0 := s.restarts
	lines := s.sync()
	if s.restarts != r0 {
		return rUnknown, nil // watchdog fired: fresh solver, empty stack
	}
	res := rUnknown
	for _, l := range lines {
		switch l {
		case "sat":
			res = rSat
		case "unsat":
			res = rUnsat
		}
	}
	if len(s.errs) > nerr {
		res = rUnknown
	}
	var model map[string]uint64
	if res == rSat && wantModel {
		model = s.getModel()
		if model == nil {
			res = rUnknown
		}
		if s.restarts != r0 {
			return rUnknown, nil
		}
	}
	if extra != nil {
		s.send("(pop 1)")
	}
	return res, model
}

func (s *Solver) getModel() map[string]uint64 {
	var vars []*Term
	for _, v := range tt.vars {
		if v.defined&s.idx != 0 && v.sort.k != sReal {
			vars = append(vars, v)
		}
	}
	model := map[string]uint64{}
	if len(vars) == 0 {
		return model
	}
	// chunk to keep lines manageable
	for i := 0; i < len(vars); i += 200 {
		j := i + 200
		if j > len(vars) {
			j = len(vars)
		}
		var sb strings.Builder
		sb.WriteString("(get-value (")
		for _, v := range vars[i:j] {
			sb.WriteString(v.ref())
			sb.WriteByte(' ')
		}
		sb.WriteString("))")
		s.send(sb.String())
		nerr := len(s.errs)
		lines := s.sync()
		if len(s.errs) > nerr {
			return nil
		}
		txt := strings.Join(lines, " ")
		parseValues(txt, model)
	}
	return model
}

// parseValues parses "((|a| #x01) (|b| true) ...)".
func parseValues(txt string, model map[string]uint64) {
	i := 0
	for i < len(txt) {
		// find a name
		if txt[i] != '|' {
			i++
			continue
		}
		j := strings.IndexByte(txt[i+1:], '|')
		if j < 0 {
			return
		}
		name := txt[i+1 : i+1+j]
		k := i + 1 + j + 1
		for k < len(txt) && txt[k] == ' ' {
			k++
		}
		e := k
		for e < len(txt) && txt[e] != ')' && txt[e] != ' ' {
			e++
		}
		tok := txt[k:e]
		var v uint64
		switch {
		case tok == "true":
			v = 1
		case tok == "false":
			v = 0
		case strings.HasPrefix(tok, "#x"):
			v, _ = strconv.ParseUint(tok[2:], 16, 64)
		case strings.HasPrefix(tok, "#b"):
			v, _ = strconv.ParseUint(tok[2:], 2, 64)
		case strings.HasPrefix(tok, "(_"): // (_ bv123 64)
			rest := txt[k:]
			f := strings.Fields(rest)
			if len(f) >= 2 && strings.HasPrefix(f[1], "bv") {
				v, _ = strconv.ParseUint(f[1][2:], 10, 64)
			}
		}
		model[name] = v
		i = e
	}
}
