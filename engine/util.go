package main

import "strings"

// stripDigits normalises a message for de-duplication of violations.
func stripDigits(s string) string {
	var sb strings.Builder
	for _, r := range s {
		if r >= '0' && r <= '9' {
			sb.WriteByte('#')
		} else {
			sb.WriteRune(r)
		}
	}
	return sb.String()
}
