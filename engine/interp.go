package main

import (
	"fmt"
	"go/token"
	"go/types"
	"os"
	"strings"

	"golang.org/x/tools/go/ssa"
)

type fnInfo struct {
	idx map[ssa.Value]int
	n   int
}

type Interp struct {
	prog    *ssa.Program
	globals map[*ssa.Global]*value
	inited  map[*ssa.Package]bool
	infos   map[*ssa.Function]*fnInfo
	solver  *Solver
	trace   bool

	// per-harness configuration
	cfg      harnessCfg
	curSite  ssa.Instruction
	splitDepth int
	frontier [][]decision
	base     int
	prof     map[string]int
	cfg0name string
	tier     string
	vsymFn   map[*ssa.Function]bool

	// per-path state
	pc        []*Term
	pcSet     map[*Term]bool
	implied   map[*Term]implEnt
	path      []decision
	pos       int
	model     map[string]uint64
	modelMemo map[*Term]uint64
	steps     int
	depth     int
	names     map[string]int
	stubs     map[string]value
	inputs    []inputRec // symbolic inputs created on this path (in order)
	reached   map[string]bool
	observed  []string
	inInit    int
	curG      *goroutine
	syncState map[*value]int64 // concurrent mode: WaitGroup counters, Mutex held flags
	sched     *scheduler
	uncertain bool // a feasibility query answered unknown on this path
	shapes    map[*ssa.BasicBlock]*mergeShape
	noMerge   bool
	noFork    bool // speculative execution of a branch arm: a decision aborts it
	merges    int
	decCtr    int
	decimals  map[*Term]*decimalRec

	// concrete mode (translator validation / replay inside the engine)
	concrete      bool
	seed          uint64
	schedSeed     uint64
	replayVals    map[string]uint64
	mapReverse    bool
	funcsSeen     map[string]bool
	stats         runStats
	elemWidthHint int
}

type inputRec struct {
	name string
	t    *Term
}

type deferred struct {
	fn    value
	args  []value
	instr *ssa.Defer
	tail  *deferred
}

type frame struct {
	in               *Interp
	caller           *frame
	fn               *ssa.Function
	block, prevBlock *ssa.BasicBlock
	env              []value
	info             *fnInfo
	locals           []value
	defers           *deferred
	result           value
	panicking        bool
	panic            interface{}
	tolerant         bool // package initialiser: failures poison instead of abort
	phisDone         bool // the phis of fr.block were set by an if-conversion
}

func (in *Interp) info(fn *ssa.Function) *fnInfo {
	if fi, ok := in.infos[fn]; ok {
		return fi
	}
	fi := &fnInfo{idx: map[ssa.Value]int{}}
	add := func(v ssa.Value) {
		if _, ok := fi.idx[v]; !ok {
			fi.idx[v] = fi.n
			fi.n++
		}
	}
	for _, p := range fn.Params {
		add(p)
	}
	for _, fv := range fn.FreeVars {
		add(fv)
	}
	for _, b := range fn.Blocks {
		for _, ins := range b.Instrs {
			if v, ok := ins.(ssa.Value); ok {
				add(v)
			}
		}
	}
	in.infos[fn] = fi
	return fi
}

func (fr *frame) set(v ssa.Value, x value) {
	fr.env[fr.info.idx[v]] = x
}

func (fr *frame) get(key ssa.Value) value {
	switch key := key.(type) {
	case nil:
		return nil
	case *ssa.Function, *ssa.Builtin:
		return key
	case *ssa.Const:
		return constValue(key)
	case *ssa.Global:
		return fr.in.globalAddr(key)
	}
	if i, ok := fr.info.idx[key]; ok {
		v := fr.env[i]
		if v == nil {
			panic(fmt.Sprintf("get: unset value %s in %s", key.Name(), fr.fn))
		}
		return v
	}
	panic(fmt.Sprintf("get: no value for %T: %v", key, key.Name()))
}

func (in *Interp) globalAddr(g *ssa.Global) *value {
	if r, ok := in.globals[g]; ok {
		return r
	}
	in.ensureInit(g.Pkg)
	if r, ok := in.globals[g]; ok {
		return r
	}
	cell := zero(deref(g.Type()))
	in.globals[g] = &cell
	return &cell
}

// ---------------------------------------------------------------- package init

var initDeny = []string{"runtime", "os", "syscall", "reflect", "internal/", "net", "net/", "crypto/", "google.golang.org/", "testing", "log", "os/", "github.com/golang/protobuf", "cloud.google.com/", "golang.org/x/net", "golang.org/x/sys", "go.opencensus.io", "github.com/apache/", "github.com/lukeroth/", "io/fs", "path/filepath", "time", "context", "sync", "sync/atomic", "unsafe", "compress/", "hash/", "encoding/json", "gopkg.in/", "flag", "expvar", "html", "text/template", "mime", "bufio", "database/", "embed", "go/", "regexp", "regexp/syntax", "image", "image/", "runtime/", "golang.org/x/text", "golang.org/x/oauth2", "golang.org/x/crypto", "math/rand", "math/big", "encoding/gob", "encoding/xml", "encoding/asn1", "vendor/", "github.com/google/", "github.com/googleapis/", "gonum.org/", "golang.org/x/exp", "text/tabwriter", "archive/", "container/list", "debug/", "plugin", "os/signal", "os/exec", "os/user", "unique", "iter", "weak", "structs", "log/", "github.com/golang/groupcache"}

func initDenied(path string) bool {
	for _, d := range initDeny {
		if path == d || (strings.HasSuffix(d, "/") && strings.HasPrefix(path, d)) || strings.HasPrefix(path, d+"/") {
			return true
		}
	}
	return false
}

func (in *Interp) ensureInit(pkg *ssa.Package) {
	if pkg == nil || in.inited[pkg] {
		return
	}
	in.inited[pkg] = true
	pkg.Build()
	// allocate globals
	for _, m := range pkg.Members {
		if g, ok := m.(*ssa.Global); ok {
			if _, ok := in.globals[g]; !ok {
				cell := zero(deref(g.Type()))
				in.globals[g] = &cell
			}
		}
	}
	initFn := pkg.Func("init")
	if initFn == nil {
		return
	}
	path := pkg.Pkg.Path()
	// globals that have an initialiser (stored to from init)
	hasInit := map[*ssa.Global]bool{}
	for _, b := range initFn.Blocks {
		for _, ins := range b.Instrs {
			for _, op := range ins.Operands(nil) {
				if g, ok := (*op).(*ssa.Global); ok && g.Pkg == pkg {
					hasInit[g] = true
				}
			}
		}
	}
	poisonAll := func(why string) {
		for g := range hasInit {
			if g.Name() == "init$guard" {
				continue
			}
			cell := in.globals[g]
			*cell = poison{why}
		}
	}
	if initDenied(path) {
		poisonAll("package " + path + " is not initialised by the engine")
		if path == "context" {
			// the two sentinel errors are compared against by callers; give
			// them distinct values (errors.New, executed by the engine)
			if en := in.prog.ImportedPackage("errors"); en != nil {
				for _, name := range []string{"Canceled", "DeadlineExceeded"} {
					if g, ok := pkg.Members[name].(*ssa.Global); ok {
						if f := en.Func("New"); f != nil {
							*in.globals[g] = in.call(nil, token.NoPos, f, []value{"context: " + name})
						}
					}
				}
			}
		}
		return
	}
	// run tolerant
	saveSteps, saveDepth := in.steps, in.depth
	savePC, savePath, savePos := in.pc, in.path, in.pos
	in.inInit++
	defer func() {
		in.inInit--
		in.steps, in.depth = saveSteps, saveDepth
		in.pc, in.path, in.pos = savePC, savePath, savePos
	}()
	in.steps = 0
	in.depth = 0
	func() {
		defer func() {
			if r := recover(); r != nil {
				if os.Getenv("GOSYM_DEBUG") != "" {
					fmt.Fprintf(os.Stderr, "init %s aborted: %v\n", path, r)
				}
				// keep what has been initialised; poison the rest lazily: we
				// cannot tell which were done, so poison those still zero-ish
				// is unsound; instead poison every global with an initialiser
				// that is still its zero value.
				for g := range hasInit {
					if g.Name() == "init$guard" {
						continue
					}
					cell := in.globals[g]
					if isZeroShallow(*cell) {
						*cell = poison{fmt.Sprintf("initialiser of %s aborted: %v", path, r)}
					}
				}
			}
		}()
		in.callSSA(nil, token.NoPos, initFn, nil, nil, true)
	}()
}

func isZeroShallow(v value) bool {
	switch v := v.(type) {
	case bool:
		return !v
	case uint64:
		return v == 0
	case float64:
		return v == 0
	case string:
		return v == ""
	case *value:
		return v == nil
	case []value:
		return v == nil
	case *Map:
		return v == nil
	case iface:
		return v.t == nil
	case *ssa.Function:
		return v == nil
	case *closure:
		return v == nil
	case structure:
		for _, e := range v {
			if !isZeroShallow(e) {
				return false
			}
		}
		return true
	case array:
		for _, e := range v {
			if !isZeroShallow(e) {
				return false
			}
		}
		return true
	}
	return false
}

// ---------------------------------------------------------------- defers / panics

func (fr *frame) runDefer(d *deferred) {
	var ok bool
	defer func() {
		if !ok {
			r := recover()
			if _, isT := r.(targetPanic); !isT {
				panic(r)
			}
			fr.panicking = true
			fr.panic = r
		}
	}()
	fr.in.call(fr, d.instr.Pos(), d.fn, d.args)
	ok = true
}

func (fr *frame) runDefers() {
	for d := fr.defers; d != nil; d = d.tail {
		fr.runDefer(d)
	}
	fr.defers = nil
	if fr.panicking {
		panic(fr.panic)
	}
}

func (in *Interp) doRecover(caller *frame) value {
	if caller != nil && !caller.panicking && caller.caller != nil && caller.caller.panicking {
		caller.caller.panicking = false
		p := caller.caller.panic
		caller.caller.panic = nil
		switch p := p.(type) {
		case targetPanic:
			return p.v
		default:
			panic(fmt.Sprintf("unexpected panic type %T in recover()", p))
		}
	}
	return iface{}
}

// ---------------------------------------------------------------- calls

func (in *Interp) prepareCall(fr *frame, call *ssa.CallCommon) (fn value, args []value) {
	v := fr.get(call.Value)
	if call.Method == nil {
		fn = v
	} else {
		recv, ok := v.(iface)
		if !ok {
			if pz, isP := v.(poison); isP {
				panic(unsupported{"method call on poisoned value: " + pz.why})
			}
			panic(fmt.Sprintf("invoke on %T", v))
		}
		if recv.t == nil {
			panic(rtPanic("invalid memory address or nil pointer dereference (method call on nil interface)"))
		}
		f := in.lookupMethod(recv.t, call.Method)
		if f == nil {
			panic(unsupported{fmt.Sprintf("method set for dynamic type %v does not contain %s", recv.t, call.Method)})
		}
		fn = f
		args = append(args, recv.v)
	}
	for _, arg := range call.Args {
		args = append(args, fr.get(arg))
	}
	return
}

func (in *Interp) lookupMethod(t types.Type, meth *types.Func) *ssa.Function {
	if t == rtErrorType {
		return nil
	}
	return in.prog.LookupMethod(t, meth.Pkg(), meth.Name())
}

func (in *Interp) call(caller *frame, pos token.Pos, fn value, args []value) value {
	switch fn := fn.(type) {
	case *ssa.Function:
		if fn == nil {
			panic(rtPanic("invalid memory address or nil pointer dereference (call of nil func)"))
		}
		return in.callSSA(caller, pos, fn, args, nil, false)
	case *closure:
		if fn == nil {
			panic(rtPanic("invalid memory address or nil pointer dereference (call of nil func)"))
		}
		return in.callSSA(caller, pos, fn.Fn, args, fn.Env, false)
	case *ssa.Builtin:
		return in.callBuiltin(caller, pos, fn, args)
	case *nativeFunc:
		return fn.f(in, caller, args)
	case poison:
		panic(unsupported{"call of poisoned function value: " + fn.why})
	}
	panic(fmt.Sprintf("cannot call %T", fn))
}

// nativeFunc is a function value implemented by the engine.
type nativeFunc struct {
	name string
	f    func(in *Interp, caller *frame, args []value) value
}

func (in *Interp) callSSA(caller *frame, pos token.Pos, fn *ssa.Function, args []value, env []value, tolerant bool) value {
	name := fn.String()
	if fn.Parent() == nil {
		if !tolerant {
			if in.isVsym(fn) {
				if r, ok := in.harnessAPI(caller, fn, args); ok {
					return r
				}
			}
			if s, ok := in.stubs[name]; ok {
				in.stats.stubsUsed[name]++
				return in.call(caller, pos, s, args)
			}
			if ext, ok := intrinsics[name]; ok {
				if r, handled := ext(in, caller, fn, args); handled {
					return r
				}
			}
			if r, ok := in.nativePassThrough(fn, args); ok {
				return r
			}
			if fn.Synthetic == "package initializer" {
				in.ensureInit(fn.Pkg)
				return nil
			}
			if fn.Pkg != nil {
				in.ensureInit(fn.Pkg)
			}
		}
		if fn.Blocks == nil && fn.Pkg != nil {
			fn.Pkg.Build()
		}
		if fn.Blocks == nil {
			if r, ok := in.nativePassThrough(fn, args); ok {
				return r
			}
			panic(unsupported{"no code for function: " + name})
		}
	}
	if fn.TypeParams().Len() > 0 && len(fn.TypeArgs()) == 0 {
		panic(unsupported{"uninstantiated generic function " + name})
	}
	if in.funcsSeen != nil && in.inInit == 0 {
		in.funcsSeen[name] = true
	}
	in.depth++
	if in.depth > in.cfg.maxDepth {
		in.depth--
		panic(pathEnd{"bound", fmt.Sprintf("call depth %d exceeded in %s", in.cfg.maxDepth, name)})
	}
	defer func() { in.depth-- }()
	fi := in.info(fn)
	fr := &frame{in: in, caller: caller, fn: fn, info: fi, tolerant: tolerant}
	fr.env = make([]value, fi.n)
	fr.block = fn.Blocks[0]
	fr.locals = make([]value, len(fn.Locals))
	for i, l := range fn.Locals {
		fr.locals[i] = zero(deref(l.Type()))
		fr.set(l, &fr.locals[i])
	}
	if len(args) != len(fn.Params) {
		panic(fmt.Sprintf("call %s: %d args for %d params", name, len(args), len(fn.Params)))
	}
	for i, p := range fn.Params {
		fr.set(p, args[i])
	}
	for i, fv := range fn.FreeVars {
		fr.set(fv, env[i])
	}
	for fr.block != nil {
		in.runFrame(fr)
	}
	return fr.result
}

func (in *Interp) runFrame(fr *frame) {
	defer func() {
		if fr.block == nil {
			return
		}
		r := recover()
		if _, ok := r.(targetPanic); !ok {
			panic(r) // engine signal: propagate unchanged
		}
		fr.panicking = true
		fr.panic = r
		fr.runDefers()
		fr.block = fr.fn.Recover
		if fr.block == nil {
			// recovered in a function without named results: return zeros
			fr.result = zeroResult(fr.fn)
		}
	}()
	for {
		nonPhis := in.executePhis(fr)
		for _, instr := range nonPhis {
			in.steps++
			if in.steps > in.cfg.maxSteps && in.inInit == 0 {
				panic(pathEnd{"bound", fmt.Sprintf("step bound %d exceeded in %s", in.cfg.maxSteps, fr.fn)})
			}
			if in.inInit > 0 && in.steps > 30000000 {
				panic(unsupported{"initialiser step budget exceeded"})
			}
			if in.trace {
				if v, ok := instr.(ssa.Value); ok {
					fmt.Fprintf(os.Stderr, "%s\t%s = %s\n", fr.fn.Name(), v.Name(), instr)
				} else {
					fmt.Fprintf(os.Stderr, "%s\t%s\n", fr.fn.Name(), instr)
				}
			}
			var k continuation
			if fr.tolerant {
				k = in.visitTolerant(fr, instr)
			} else {
				k = in.visitInstr(fr, instr)
			}
			if k == kReturn {
				return
			}
			if k == kJump {
				break
			}
		}
	}
}

func zeroResult(fn *ssa.Function) value {
	res := fn.Signature.Results()
	switch res.Len() {
	case 0:
		return nil
	case 1:
		return zero(res.At(0).Type())
	}
	return zero(res)
}

// visitTolerant executes one instruction of a package initialiser; failures
// poison the instruction's value instead of aborting.
func (in *Interp) visitTolerant(fr *frame, instr ssa.Instruction) (k continuation) {
	defer func() {
		if r := recover(); r != nil {
			if pe, ok := r.(pathEnd); ok && pe.kind != "bound" {
				panic(r)
			}
			why := fmt.Sprint(r)
			if u, ok := r.(unsupported); ok {
				why = u.msg
			}
			if tp, ok := r.(targetPanic); ok {
				why = "panic in initialiser: " + toString(tp.v)
			}
			if os.Getenv("GOSYM_DEBUG") != "" {
				fmt.Fprintf(os.Stderr, "init %s: %s -> poison (%s)\n", fr.fn.Pkg.Pkg.Path(), instr, why)
			}
			if v, ok := instr.(ssa.Value); ok {
				fr.set(v, poison{why})
			}
			if _, ok := instr.(*ssa.If); ok {
				// cannot decide: give up on this initialiser
				panic(unsupported{"branch on poisoned value in initialiser"})
			}
			k = kNext
		}
	}()
	return in.visitInstr(fr, instr)
}

func (in *Interp) executePhis(fr *frame) []ssa.Instruction {
	instrs := fr.block.Instrs
	firstNonPhi := 0
	for firstNonPhi < len(instrs) {
		if _, ok := instrs[firstNonPhi].(*ssa.Phi); !ok {
			break
		}
		firstNonPhi++
	}
	if fr.phisDone {
		fr.phisDone = false
		return instrs[firstNonPhi:]
	}
	if firstNonPhi > 0 {
		predIndex := -1
		for i, p := range fr.block.Preds {
			if p == fr.prevBlock {
				predIndex = i
				break
			}
		}
		tmp := make([]value, firstNonPhi)
		for i, phi := range instrs[:firstNonPhi] {
			tmp[i] = fr.get(phi.(*ssa.Phi).Edges[predIndex])
		}
		for i, phi := range instrs[:firstNonPhi] {
			fr.set(phi.(*ssa.Phi), tmp[i])
		}
	}
	return instrs[firstNonPhi:]
}

type continuation int

const (
	kNext continuation = iota
	kReturn
	kJump
)

// concIndex returns a concrete index, or -1 and the term.
func (in *Interp) indexOf(idx value, t types.Type, n int) (int, *Term) {
	switch idx := idx.(type) {
	case uint64:
		i, _ := asInt(idx, t)
		if i < 0 || i >= int64(n) {
			panic(rtPanic(fmt.Sprintf("index out of range [%d] with length %d", i, n)))
		}
		return int(i), nil
	case *Term:
		w, signed, _ := intInfo(t)
		var t64 *Term
		if signed {
			t64 = mkSext(idx, 64)
		} else {
			t64 = mkZext(idx, 64)
		}
		_ = w
		inRange := mkCmp("bvult", t64, mkBV(uint64(n), 64))
		if !in.branch(inRange) {
			panic(rtPanic(fmt.Sprintf("index out of range [symbolic] with length %d", n)))
		}
		if t64.isConst() {
			return int(t64.cval), nil
		}
		return -1, t64
	case poison:
		panic(unsupported{"index is poisoned: " + idx.why})
	}
	panic(fmt.Sprintf("index of type %T", idx))
}

func (in *Interp) visitInstr(fr *frame, instr ssa.Instruction) continuation {
	switch instr := instr.(type) {
	case *ssa.DebugRef:

	case *ssa.UnOp:
		fr.set(instr, in.unop(instr, fr.get(instr.X)))

	case *ssa.BinOp:
		fr.set(instr, in.binop(instr.Op, instr.X.Type(), instr.Y.Type(), fr.get(instr.X), fr.get(instr.Y)))

	case *ssa.Call:
		fn, args := in.prepareCall(fr, &instr.Call)
		r := in.call(fr, instr.Pos(), fn, args)
		if r == nil {
			r = tuple(nil)
		}
		fr.set(instr, r)

	case *ssa.ChangeInterface:
		fr.set(instr, fr.get(instr.X))

	case *ssa.ChangeType:
		fr.set(instr, fr.get(instr.X))

	case *ssa.Convert:
		fr.set(instr, in.conv(instr.Type(), instr.X.Type(), fr.get(instr.X)))

	case *ssa.SliceToArrayPointer:
		x := fr.get(instr.X).([]value)
		n := int(deref(instr.Type()).Underlying().(*types.Array).Len())
		if len(x) < n {
			panic(rtPanic("cannot convert slice to array pointer: length too short"))
		}
		if x == nil {
			fr.set(instr, (*value)(nil))
		} else {
			// aliasing of slice and array cannot be represented; copy
			panic(unsupported{"slice to array pointer conversion"})
		}

	case *ssa.MakeInterface:
		fr.set(instr, iface{t: instr.X.Type(), v: fr.get(instr.X)})

	case *ssa.Extract:
		tup := fr.get(instr.Tuple)
		if pz, ok := tup.(poison); ok {
			fr.set(instr, pz)
			break
		}
		fr.set(instr, tup.(tuple)[instr.Index])

	case *ssa.Slice:
		fr.set(instr, in.slice(instr, fr.get(instr.X), fr.get(instr.Low), fr.get(instr.High), fr.get(instr.Max)))

	case *ssa.Return:
		switch len(instr.Results) {
		case 0:
		case 1:
			fr.result = fr.get(instr.Results[0])
		default:
			res := make(tuple, len(instr.Results))
			for i, r := range instr.Results {
				res[i] = fr.get(r)
			}
			fr.result = res
		}
		fr.block = nil
		return kReturn

	case *ssa.RunDefers:
		fr.runDefers()

	case *ssa.Panic:
		panic(targetPanic{fr.get(instr.X)})

	case *ssa.Send:
		in.chanSend(fr.get(instr.Chan), fr.get(instr.X))

	case *ssa.Store:
		in.store(fr.get(instr.Addr), fr.get(instr.Val))

	case *ssa.If:
		succ := 1
		in.curSite = instr
		if ct, ok := fr.get(instr.Cond).(*Term); ok && !ct.isConst() && !in.concrete {
			// (only the path condition itself is consulted: the implied-cache
			// is history dependent and a replayed prefix must merge identically)
			if !in.pcSet[ct] && !in.pcSet[mkNot(ct)] && in.tryMerge(fr, instr, ct) {
				return kJump
			}
		}
		if in.truth(fr.get(instr.Cond)) {
			succ = 0
		}
		fr.prevBlock, fr.block = fr.block, fr.block.Succs[succ]
		return kJump

	case *ssa.Jump:
		fr.prevBlock, fr.block = fr.block, fr.block.Succs[0]
		return kJump

	case *ssa.Defer:
		fn, args := in.prepareCall(fr, &instr.Call)
		defers := &fr.defers
		if instr.DeferStack != nil {
			if into := fr.get(instr.DeferStack); into != nil {
				defers = into.(**deferred)
			}
		}
		*defers = &deferred{fn: fn, args: args, instr: instr, tail: *defers}

	case *ssa.Go:
		fn, args := in.prepareCall(fr, &instr.Call)
		in.spawn(fr, instr, fn, args)

	case *ssa.MakeChan:
		n, ok := asInt(fr.get(instr.Size), instr.Size.Type())
		if !ok {
			panic(unsupported{"symbolic channel size"})
		}
		fr.set(instr, &Chan{cap: int(n)})

	case *ssa.Alloc:
		var addr *value
		if instr.Heap {
			addr = new(value)
			fr.set(instr, addr)
		} else {
			addr = fr.get(instr).(*value)
		}
		*addr = zero(deref(instr.Type()))

	case *ssa.MakeSlice:
		ln := in.concInt(fr.get(instr.Len), instr.Len.Type(), "make len")
		cp := in.concInt(fr.get(instr.Cap), instr.Cap.Type(), "make cap")
		if ln < 0 || cp < ln {
			panic(rtPanic("makeslice: len out of range"))
		}
		if cp > 1<<24 {
			panic(unsupported{fmt.Sprintf("make([]T, %d): too large for the engine", cp)})
		}
		s := make([]value, cp)
		tElt := instr.Type().Underlying().(*types.Slice).Elem()
		for i := range s {
			s[i] = zero(tElt)
		}
		fr.set(instr, s[:ln])

	case *ssa.MakeMap:
		fr.set(instr, newMap(instr.Type().Underlying().(*types.Map).Key()))

	case *ssa.Range:
		fr.set(instr, in.rangeIter(fr.get(instr.X), instr.X.Type()))

	case *ssa.Next:
		fr.set(instr, fr.get(instr.Iter).(iter).next(in))

	case *ssa.FieldAddr:
		x := fr.get(instr.X)
		p, ok := x.(*value)
		if !ok {
			if pz, isP := x.(poison); isP {
				panic(unsupported{"field of poisoned pointer: " + pz.why})
			}
			panic(unsupported{fmt.Sprintf("FieldAddr on %T", x)})
		}
		if p == nil {
			panic(rtPanic("invalid memory address or nil pointer dereference"))
		}
		s, ok := (*p).(structure)
		if !ok {
			if pz, isP := (*p).(poison); isP {
				panic(unsupported{"field of poisoned struct: " + pz.why})
			}
			panic(fmt.Sprintf("FieldAddr: pointee is %T in %s", *p, fr.fn))
		}
		fr.set(instr, &s[instr.Field])

	case *ssa.Field:
		x := fr.get(instr.X)
		s, ok := x.(structure)
		if !ok {
			if pz, isP := x.(poison); isP {
				panic(unsupported{"field of poisoned struct: " + pz.why})
			}
			panic(fmt.Sprintf("Field on %T", x))
		}
		fr.set(instr, copyVal(s[instr.Field]))

	case *ssa.IndexAddr:
		x := fr.get(instr.X)
		idx := fr.get(instr.Index)
		var elems []value
		var et types.Type
		switch x := x.(type) {
		case []value:
			elems = x
			et = instr.X.Type().Underlying().(*types.Slice).Elem()
		case *value:
			if x == nil {
				panic(rtPanic("invalid memory address or nil pointer dereference"))
			}
			a, ok := (*x).(array)
			if !ok {
				panic(unsupported{fmt.Sprintf("IndexAddr: pointee %T", *x)})
			}
			elems = a
			et = deref(instr.X.Type()).Underlying().(*types.Array).Elem()
		case poison:
			panic(unsupported{"index of poisoned value: " + x.why})
		default:
			panic(fmt.Sprintf("unexpected x type in IndexAddr: %T", x))
		}
		i, sym := in.indexOf(idx, instr.Index.Type(), len(elems))
		if sym != nil && len(elems) <= in.cfg.forkIndexBelow {
			i, sym = in.concretize(sym, len(elems)), nil
		}
		if sym == nil {
			fr.set(instr, &elems[i])
		} else {
			w, _, isInt := intInfo(et)
			if !isInt {
				w = 0
			}
			fr.set(instr, symPtr{elems: elems, idx: sym, w: w, isBool: isBool(et)})
		}

	case *ssa.Index:
		x := fr.get(instr.X)
		idx := fr.get(instr.Index)
		switch x := x.(type) {
		case array:
			i, sym := in.indexOf(idx, instr.Index.Type(), len(x))
			if sym == nil {
				fr.set(instr, copyVal(x[i]))
			} else {
				et := instr.X.Type().Underlying().(*types.Array).Elem()
				w, _, isInt := intInfo(et)
				if !isInt {
					w = 0
				}
				fr.set(instr, in.symLoad(symPtr{elems: x, idx: sym, w: w, isBool: isBool(et)}))
			}
		case string, *SymStr:
			n := strLen(x)
			i, sym := in.indexOf(idx, instr.Index.Type(), n)
			if sym == nil {
				fr.set(instr, strByte(x, i))
			} else {
				fr.set(instr, in.symLoad(symPtr{elems: strBytes(x), idx: sym, w: 8}))
			}
		default:
			panic(fmt.Sprintf("unexpected x type in Index: %T", x))
		}

	case *ssa.Lookup:
		x := fr.get(instr.X)
		switch x := x.(type) {
		case *Map:
			v, ok := in.mapLookup(x, fr.get(instr.Index))
			if !ok {
				v = zero(instr.X.Type().Underlying().(*types.Map).Elem())
			} else {
				v = copyVal(v)
			}
			if instr.CommaOk {
				fr.set(instr, tuple{v, ok})
			} else {
				fr.set(instr, v)
			}
		case string, *SymStr:
			n := strLen(x)
			i, sym := in.indexOf(fr.get(instr.Index), instr.Index.Type(), n)
			if sym == nil {
				fr.set(instr, strByte(x, i))
			} else {
				fr.set(instr, in.symLoad(symPtr{elems: strBytes(x), idx: sym, w: 8}))
			}
		case poison:
			panic(unsupported{"lookup in poisoned map: " + x.why})
		default:
			panic(fmt.Sprintf("unexpected x type in Lookup: %T", x))
		}

	case *ssa.MapUpdate:
		m := fr.get(instr.Map)
		mm, ok := m.(*Map)
		if !ok {
			if pz, isP := m.(poison); isP {
				panic(unsupported{"update of poisoned map: " + pz.why})
			}
			panic(fmt.Sprintf("MapUpdate on %T", m))
		}
		in.mapInsert(mm, fr.get(instr.Key), fr.get(instr.Value))

	case *ssa.TypeAssert:
		fr.set(instr, in.typeAssert(instr, fr.get(instr.X)))

	case *ssa.MakeClosure:
		bindings := make([]value, len(instr.Bindings))
		for i, b := range instr.Bindings {
			bindings[i] = fr.get(b)
		}
		fr.set(instr, &closure{instr.Fn.(*ssa.Function), bindings})

	case *ssa.Phi:
		panic("unreachable: phi")

	case *ssa.Select:
		fr.set(instr, in.selectStmt(fr, instr))

	default:
		panic(unsupported{fmt.Sprintf("unexpected instruction: %T", instr)})
	}
	return kNext
}

// concInt returns a concrete int, concretising a symbolic one by case split
// over 0..cfg.maxConcretize.
func (in *Interp) concInt(v value, t types.Type, what string) int64 {
	switch v := v.(type) {
	case uint64:
		i, _ := asInt(v, t)
		return i
	case *Term:
		w, signed, _ := intInfo(t)
		_ = w
		var t64 *Term
		if signed {
			t64 = mkSext(v, 64)
		} else {
			t64 = mkZext(v, 64)
		}
		return int64(in.concretizeAny(t64, what))
	case poison:
		panic(unsupported{what + " is poisoned: " + v.why})
	}
	panic(fmt.Sprintf("concInt: %T", v))
}

func (in *Interp) slice(instr *ssa.Slice, x, lo, hi, max value) value {
	var Len, Cap int
	switch x := x.(type) {
	case string:
		Len = len(x)
		Cap = Len
	case *SymStr:
		Len = len(x.b)
		Cap = Len
	case []value:
		Len = len(x)
		Cap = cap(x)
	case *value:
		if x == nil {
			panic(rtPanic("invalid memory address or nil pointer dereference"))
		}
		a := (*x).(array)
		Len = len(a)
		Cap = len(a)
	case poison:
		panic(unsupported{"slice of poisoned value: " + x.why})
	default:
		panic(fmt.Sprintf("slice: unexpected X type: %T", x))
	}
	l, h, m := int64(0), int64(Len), int64(Cap)
	if lo != nil {
		l = in.concInt(lo, instr.Low.Type(), "slice low")
	}
	if hi != nil {
		h = in.concInt(hi, instr.High.Type(), "slice high")
	}
	if max != nil {
		m = in.concInt(max, instr.Max.Type(), "slice max")
	}
	switch x := x.(type) {
	case string, *SymStr:
		if l < 0 || h < l || h > int64(Len) {
			panic(rtPanic(fmt.Sprintf("slice bounds out of range [%d:%d] with length %d", l, h, Len)))
		}
		return strSlice(x, int(l), int(h))
	case []value:
		if l < 0 || h < l || m < h || m > int64(Cap) {
			panic(rtPanic(fmt.Sprintf("slice bounds out of range [%d:%d:%d] with capacity %d", l, h, m, Cap)))
		}
		if x == nil {
			return []value(nil)
		}
		return x[l:h:m]
	case *value:
		a := (*x).(array)
		if l < 0 || h < l || m < h || m > int64(Cap) {
			panic(rtPanic(fmt.Sprintf("slice bounds out of range [%d:%d:%d] with capacity %d", l, h, m, Cap)))
		}
		return []value(a)[l:h:m]
	}
	panic("slice")
}

func (in *Interp) rangeIter(x value, t types.Type) iter {
	switch x := x.(type) {
	case *Map:
		n := 0
		if x != nil {
			n = len(x.ents)
		}
		return &mapIter{m: x, end: n, rev: in.mapReverse}
	case string, *SymStr:
		return &stringIter{s: x}
	case poison:
		panic(unsupported{"range over poisoned value: " + x.why})
	}
	panic(unsupported{fmt.Sprintf("cannot range over %T", x)})
}

func (in *Interp) typeAssert(instr *ssa.TypeAssert, x value) value {
	itf, ok := x.(iface)
	if !ok {
		if pz, isP := x.(poison); isP {
			panic(unsupported{"type assertion on poisoned value: " + pz.why})
		}
		panic(fmt.Sprintf("typeAssert on %T", x))
	}
	var v value
	err := ""
	if idst, ok := instr.AssertedType.Underlying().(*types.Interface); ok {
		v = itf
		err = in.checkInterface(itf, idst)
	} else if types.Identical(itf.t, instr.AssertedType) {
		v = copyVal(itf.v)
	} else {
		err = fmt.Sprintf("interface conversion: interface is %s, not %s", itf.t, instr.AssertedType)
	}
	if err != "" {
		if !instr.CommaOk {
			panic(targetPanic{iface{t: rtErrorType, v: err}})
		}
		return tuple{zero(instr.AssertedType), false}
	}
	if instr.CommaOk {
		return tuple{v, true}
	}
	return v
}

func (in *Interp) checkInterface(x iface, itype *types.Interface) string {
	if x.t == nil {
		return "interface conversion: interface is nil"
	}
	if x.t == rtErrorType {
		if itype.NumMethods() == 0 {
			return ""
		}
		return "interface conversion: runtime error value"
	}
	if meth, _ := types.MissingMethod(x.t, itype, true); meth != nil {
		return fmt.Sprintf("interface conversion: %v is not %v: missing method %s", x.t, itype, meth.Name())
	}
	return ""
}

func (in *Interp) isVsym(fn *ssa.Function) bool {
	if b, ok := in.vsymFn[fn]; ok {
		return b
	}
	b := false
	if fn.Pkg != nil && fn.Pos().IsValid() {
		f := in.prog.Fset.Position(fn.Pos()).Filename
		b = strings.HasSuffix(f, "zz_vsym.go")
	}
	in.vsymFn[fn] = b
	return b
}
