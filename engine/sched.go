package main

// Goroutines, channels and select.
//
// Sequential mode: `go` is rejected and channel operations that would block
// are rejected.  Concurrent mode (cfg.concurrent): every interpreted goroutine
// runs on its own host goroutine but only one holds the baton at a time; at
// each scheduling point the next goroutine to run is a decision of the
// exploration (so schedules are enumerated like branches).

import (
	"fmt"
	"go/types"

	"golang.org/x/tools/go/ssa"
)

type goroutineAbort struct {
	kind, msg string
}

type goroutine struct {
	id      int
	wake    chan struct{}
	done    bool
	blocked func() bool // nil when runnable; else returns true when it can proceed
	what    string
}

type scheduler struct {
	in          *Interp
	gs          []*goroutine
	mainDone    chan struct{}
	abort       interface{} // set when the path must end (panic value to rethrow in main)
	points      int
	preemptions int
}

func (in *Interp) spawn(fr *frame, instr *ssa.Go, fn value, args []value) {
	if !in.cfg.concurrent {
		panic(unsupported{"go statement in sequential mode"})
	}
	s := in.sched
	if s == nil {
		s = &scheduler{in: in}
		in.sched = s
		main := &goroutine{id: 0, wake: make(chan struct{})}
		s.gs = append(s.gs, main)
		in.curG = main
	}
	g := &goroutine{id: len(s.gs), wake: make(chan struct{})}
	s.gs = append(s.gs, g)
	go func() {
		<-g.wake // wait for the baton
		defer func() {
			r := recover()
			g.done = true
			if r != nil {
				if _, ok := r.(goroutineKill); ok {
					// path is being torn down
					s.handBack()
					return
				}
				// a panic or engine signal inside a goroutine ends the path
				if tp, ok := r.(targetPanic); ok {
					r = pathEnd{"gopanic", "panic in goroutine: " + toString(tp.v)}
				}
				s.abort = r
				s.handBack()
				return
			}
			s.yield(g, true)
		}()
		in.depthByG(g)
		in.call(nil, instr.Pos(), fn, args)
	}()
	// spawning is a scheduling point
	s.yield(in.curG, false)
}

type goroutineKill struct{}

func (in *Interp) depthByG(g *goroutine) {}

// handBack gives the baton to main so that it can rethrow s.abort.
func (s *scheduler) handBack() {
	main := s.gs[0]
	s.in.curG = main
	main.wake <- struct{}{}
}

// runnable lists goroutines that can make progress.
func (s *scheduler) runnable() []*goroutine {
	var r []*goroutine
	for _, g := range s.gs {
		if g.done {
			continue
		}
		if g.blocked == nil || g.blocked() {
			r = append(r, g)
		}
	}
	return r
}

// yield is a scheduling point for goroutine g. If exiting, g never runs again.
func (s *scheduler) yield(g *goroutine, exiting bool) {
	in := s.in
	if s.abort != nil {
		if g.id == 0 {
			r := s.abort
			s.killAll()
			panic(r)
		}
		if exiting {
			s.handBack()
			return
		}
		s.handBack()
		<-g.wake
		panic(goroutineKill{})
	}
	s.points++
	if s.points > in.cfg.maxSchedPoints {
		s.abort = pathEnd{"bound", fmt.Sprintf("scheduling-point bound %d exceeded", in.cfg.maxSchedPoints)}
		s.yield(g, exiting)
		return
	}
	rs := s.runnable()
	if len(rs) == 0 {
		// nobody can run
		alive := 0
		for _, x := range s.gs {
			if !x.done {
				alive++
			}
		}
		if alive == 0 {
			return
		}
		var what []string
		for _, x := range s.gs {
			if !x.done {
				what = append(what, fmt.Sprintf("g%d:%s", x.id, x.what))
			}
		}
		s.abort = goroutineAbort{"deadlock", fmt.Sprintf("deadlock: all goroutines blocked %v", what)}
		s.yield(g, exiting)
		return
	}
	var next *goroutine
	// context bound: a goroutine that could continue is preempted at most
	// cfg.maxPreemptions times per path; switches at blocking operations and
	// at goroutine exit are free.
	canContinue := false
	if !exiting {
		for k, x := range rs {
			if x == g {
				canContinue = true
				rs[0], rs[k] = rs[k], rs[0] // decision 0 = keep running
				break
			}
		}
	}
	if len(rs) == 1 {
		next = rs[0]
	} else if canContinue && s.preemptions >= in.cfg.maxPreemptions {
		next = g
	} else {
		i := in.choose(len(rs), nil)
		next = rs[i]
		if canContinue && next != g {
			s.preemptions++
		}
	}
	if next == g && !exiting {
		g.blocked = nil
		return
	}
	in.curG = next
	next.blocked = nil
	next.wake <- struct{}{}
	if exiting {
		return
	}
	<-g.wake
	if s.abort != nil {
		if g.id == 0 {
			r := s.abort
			s.killAll()
			panic(r)
		}
		panic(goroutineKill{})
	}
}

// killAll unblocks every parked goroutine so that it unwinds.
func (s *scheduler) killAll() {
	for _, g := range s.gs[1:] {
		for !g.done {
			g.wake <- struct{}{}
			<-s.gs[0].wake
		}
	}
}

// block parks the current goroutine until cond() holds.
func (in *Interp) block(what string, cond func() bool) {
	if cond() {
		return
	}
	s := in.sched
	if s == nil {
		panic(goroutineAbort{"deadlock", "deadlock: " + what + " blocks forever (no other goroutine)"})
	}
	g := in.curG
	g.blocked = cond
	g.what = what
	s.yield(g, false)
	g.blocked = nil
}

// schedPoint is an optional preemption point (before visible operations).
func (in *Interp) schedPoint() {
	if in.sched != nil && in.curG != nil {
		in.sched.yield(in.curG, false)
	}
}

// finishMain is called when the harness function returns: remaining
// goroutines are torn down (Go semantics: program exit).
func (s *scheduler) finishMain() {
	s.abort = pathEnd{"done", ""}
	s.killAll()
	s.abort = nil
}

// ---------------------------------------------------------------- channels

func (in *Interp) chanSend(ch value, v value) {
	c, _ := ch.(*Chan)
	in.schedPoint()
	if c == nil {
		in.block("send on nil channel", func() bool { return false })
	}
	if c.closed {
		panic(rtPanic("send on closed channel"))
	}
	if c.cap > 0 {
		in.block("chan send", func() bool { return c.closed || len(c.buf) < c.cap })
		if c.closed {
			panic(rtPanic("send on closed channel"))
		}
		c.buf = append(c.buf, copyVal(v))
		return
	}
	// unbuffered: rendezvous modelled with a one-slot hand-off that the
	// receiver must take before the sender continues.
	in.block("chan send", func() bool { return c.closed || (len(c.buf) == 0 && c.recvWaiting > 0) })
	if c.closed {
		panic(rtPanic("send on closed channel"))
	}
	c.buf = append(c.buf, copyVal(v))
	c.recvWaiting--
	c.handoff++
}

func (in *Interp) chanRecv(ch value, commaOk bool, t types.Type) value {
	c, _ := ch.(*Chan)
	in.schedPoint()
	et := t.Underlying().(*types.Chan).Elem()
	if c == nil {
		in.block("receive from nil channel", func() bool { return false })
	}
	var v value
	ok := true
	if c.cap > 0 {
		in.block("chan recv", func() bool { return c.closed || len(c.buf) > 0 })
		if len(c.buf) > 0 {
			v = c.buf[0]
			c.buf = c.buf[1:]
		} else {
			v, ok = zero(et), false
		}
	} else {
		c.recvWaiting++
		in.block("chan recv", func() bool { return c.closed || len(c.buf) > 0 })
		if len(c.buf) > 0 {
			v = c.buf[0]
			c.buf = c.buf[1:]
			c.handoff--
		} else {
			c.recvWaiting--
			v, ok = zero(et), false
		}
	}
	if commaOk {
		return tuple{v, ok}
	}
	return v
}

func (in *Interp) chanClose(ch value) {
	c, _ := ch.(*Chan)
	in.schedPoint()
	if c == nil {
		panic(rtPanic("close of nil channel"))
	}
	if c.closed {
		panic(rtPanic("close of closed channel"))
	}
	c.closed = true
}

// selectStmt implements ssa.Select.
func (in *Interp) selectStmt(fr *frame, instr *ssa.Select) value {
	in.schedPoint()
	type cs struct {
		c    *Chan
		send bool
		v    value
	}
	var cases []cs
	for _, st := range instr.States {
		c, _ := fr.get(st.Chan).(*Chan)
		x := cs{c: c, send: st.Dir == types.SendOnly}
		if x.send {
			x.v = fr.get(st.Send)
		}
		cases = append(cases, x)
	}
	ready := func(i int) bool {
		x := cases[i]
		if x.c == nil {
			return false
		}
		if x.send {
			if x.c.closed {
				return true // will panic
			}
			if x.c.cap > 0 {
				return len(x.c.buf) < x.c.cap
			}
			return len(x.c.buf) == 0 && x.c.recvWaiting > 0
		}
		return x.c.closed || len(x.c.buf) > 0
	}
	anyReady := func() []int {
		var r []int
		for i := range cases {
			if ready(i) {
				r = append(r, i)
			}
		}
		return r
	}
	rs := anyReady()
	if len(rs) == 0 {
		if !instr.Blocking {
			return in.selectResult(instr, -1, nil, false)
		}
		// register as waiting receiver on unbuffered channels
		for _, x := range cases {
			if !x.send && x.c != nil && x.c.cap == 0 {
				x.c.recvWaiting++
			}
		}
		in.block("select", func() bool { return len(anyReady()) > 0 })
		for _, x := range cases {
			if !x.send && x.c != nil && x.c.cap == 0 {
				x.c.recvWaiting--
			}
		}
		rs = anyReady()
		// a sender may have consumed our recvWaiting registration (handoff)
	}
	chosen := rs[0]
	if len(rs) > 1 {
		chosen = rs[in.choose(len(rs), nil)]
	}
	x := cases[chosen]
	if x.send {
		if x.c.closed {
			panic(rtPanic("send on closed channel"))
		}
		x.c.buf = append(x.c.buf, copyVal(x.v))
		if x.c.cap == 0 {
			x.c.recvWaiting--
			x.c.handoff++
		}
		return in.selectResult(instr, chosen, nil, false)
	}
	if len(x.c.buf) > 0 {
		v := x.c.buf[0]
		x.c.buf = x.c.buf[1:]
		if x.c.cap == 0 {
			x.c.handoff--
			// the registration consumed by the sender was ours: restore the
			// decrement done above
			x.c.recvWaiting++
		}
		return in.selectResult(instr, chosen, v, true)
	}
	return in.selectResult(instr, chosen, nil, false)
}

func (in *Interp) selectResult(instr *ssa.Select, chosen int, recv value, recvOk bool) value {
	r := tuple{uint64(int64(chosen)), recvOk}
	for i, st := range instr.States {
		if st.Dir == types.RecvOnly {
			var v value
			if i == chosen && recvOk {
				v = recv
			} else {
				v = zero(st.Chan.Type().Underlying().(*types.Chan).Elem())
			}
			r = append(r, v)
		}
	}
	return r
}
