package main

// gosym: bounded symbolic execution of Go functions from go/ssa.
//
//   gosym -pkg <rel pkg under the b6 module> -run <regexp> [-tier quick|thorough]
//         [-out result.json] [-concrete N] [-seed S] [-replay values.json]
//
// Harness files are taken from $VERIF/harness/<pkg>/zz_*.go and overlaid into
// the package directory of /repo (nothing is written to /repo).

import (
	"encoding/json"
	"flag"
	"fmt"
	"go/ast"
	"go/parser"
	"go/token"
	"os"
	"os/exec"
	"path/filepath"
	"regexp"
	"runtime"
	"sort"
	"strconv"
	"strings"
	"time"

	"golang.org/x/tools/go/packages"
	"golang.org/x/tools/go/ssa"
	"golang.org/x/tools/go/ssa/ssautil"
)

var (
	flagPkg      = flag.String("pkg", "", "package directory relative to the module root (e.g. encoding)")
	flagRun      = flag.String("run", "", "regexp of harness function names")
	flagTier     = flag.String("tier", "quick", "quick|thorough")
	flagOut      = flag.String("out", "", "write JSON results here")
	flagConcrete = flag.Int("concrete", 0, "run N seeded concrete executions (translator validation) instead of symbolic exploration")
	flagSeed     = flag.Uint64("seed", 1, "seed for concrete executions")
	flagReplay   = flag.String("replay", "", "JSON file with input values: run concretely with them")
	flagList     = flag.Bool("list", false, "list harnesses")
	flagRepo     = flag.String("repo", "/repo/src/diagonal.works/b6", "module root")
	flagVerif    = flag.String("verif", "", "verif dir (default: dir of executable/..)")
	flagTrace    = flag.Bool("trace", false, "trace instructions")
	flagSolver   = flag.String("solver", "", "override solver")
	flagMaxPaths = flag.Int("maxpaths", 0, "override max paths")
	flagWall     = flag.Int("wall", 0, "override wall limit (seconds)")
	flagMapRev   = flag.Bool("maprev", false, "iterate maps in reverse insertion order")
	flagWorkers  = flag.Int("workers", 1, "max worker processes for harnesses that declare //vh:split=D")
	flagPrefixes = flag.String("prefixes", "", "worker mode: JSON file with decision prefixes to explore")
	flagTermTest = flag.Int("termtest", 0, "self-test of the term rewriting: N random rounds, then exit")
	flagNoWires  = flag.Bool("nowires", false, "disable the bit-wiring normal form")
	flagNoMerge  = flag.Bool("nomerge", false, "disable if-conversion of pure diamonds")
)

type harnessDecl struct {
	Name string
	Dirs map[string]string // directives
}

func verifDir() string {
	if *flagVerif != "" {
		return *flagVerif
	}
	exe, err := os.Executable()
	if err == nil {
		return filepath.Dir(filepath.Dir(exe))
	}
	return "/verif"
}

func main() {
	flag.Parse()
	if os.Getenv("GOMAXPROCS") == "" {
		// loading is mostly serial; more threads only burn CPU in the runtime
		runtime.GOMAXPROCS(3)
		os.Setenv("GOMAXPROCS", "4") // for the go list child
	}
	if *flagTermTest > 0 {
		n, msg := runTermTest(*flagTermTest, *flagSeed)
		if msg != "" {
			fmt.Println("termtest FAILED:", msg)
			os.Exit(1)
		}
		fmt.Printf("termtest ok: %d evaluations agree\n", n)
		return
	}
	noWires = *flagNoWires
	if *flagPkg == "" {
		fmt.Fprintln(os.Stderr, "need -pkg")
		os.Exit(2)
	}
	vd := verifDir()
	hdir := filepath.Join(vd, "harness", *flagPkg)
	pkgDir := filepath.Join(*flagRepo, pkgPath(*flagPkg))
	files, _ := filepath.Glob(filepath.Join(hdir, "zz_*.go"))
	if len(files) == 0 {
		fmt.Fprintln(os.Stderr, "no harness files in", hdir)
		os.Exit(2)
	}
	overlay := map[string][]byte{}
	var decls []harnessDecl
	pkgName := ""
	fset := token.NewFileSet()
	for _, f := range files {
		if strings.HasSuffix(f, "_test.go") {
			continue
		}
		src, err := os.ReadFile(f)
		if err != nil {
			panic(err)
		}
		overlay[filepath.Join(pkgDir, filepath.Base(f))] = src
		af, err := parser.ParseFile(fset, f, src, parser.ParseComments)
		if err != nil {
			fmt.Fprintln(os.Stderr, "parse error:", err)
			os.Exit(2)
		}
		pkgName = af.Name.Name
		for _, d := range af.Decls {
			fd, ok := d.(*ast.FuncDecl)
			if !ok || fd.Recv != nil || !strings.HasPrefix(fd.Name.Name, "VH_") {
				continue
			}
			hd := harnessDecl{Name: fd.Name.Name, Dirs: map[string]string{}}
			if fd.Doc != nil {
				for _, c := range fd.Doc.List {
					if strings.HasPrefix(c.Text, "//vh:") {
						for _, kv := range strings.Fields(c.Text[5:]) {
							if i := strings.IndexByte(kv, '='); i >= 0 {
								hd.Dirs[kv[:i]] = kv[i+1:]
							} else {
								hd.Dirs[kv] = "1"
							}
						}
					}
				}
			}
			decls = append(decls, hd)
		}
	}
	// the shared API file
	vsym, err := os.ReadFile(filepath.Join(vd, "harness", "vsym.go.tmpl"))
	if err != nil {
		panic(err)
	}
	overlay[filepath.Join(pkgDir, "zz_vsym.go")] = []byte(strings.Replace(string(vsym), "package PKGNAME", "package "+pkgName, 1))
	// harness files of other packages this one's harnesses call into
	if deps, err := os.ReadFile(filepath.Join(hdir, "overlay_deps")); err == nil {
		for _, dep := range strings.Fields(string(deps)) {
			dfiles, _ := filepath.Glob(filepath.Join(vd, "harness", dep, "zz_*.go"))
			depName := ""
			for _, f := range dfiles {
				if strings.HasSuffix(f, "_test.go") {
					continue
				}
				src, err := os.ReadFile(f)
				if err != nil {
					panic(err)
				}
				overlay[filepath.Join(*flagRepo, pkgPath(dep), filepath.Base(f))] = src
				if af, err := parser.ParseFile(fset, f, src, parser.PackageClauseOnly); err == nil {
					depName = af.Name.Name
				}
			}
			if depName != "" {
				overlay[filepath.Join(*flagRepo, pkgPath(dep), "zz_vsym.go")] = []byte(strings.Replace(string(vsym), "package PKGNAME", "package "+depName, 1))
			}
		}
	}

	re := regexp.MustCompile(".*")
	if *flagRun != "" {
		re = regexp.MustCompile("^(" + *flagRun + ")$")
	}
	if *flagList {
		for _, d := range decls {
			if re.MatchString(d.Name) {
				b, _ := json.Marshal(d)
				fmt.Println(string(b))
			}
		}
		return
	}

	t0 := time.Now()
	cfg := &packages.Config{
		Mode:       packages.NeedName | packages.NeedFiles | packages.NeedCompiledGoFiles | packages.NeedImports | packages.NeedDeps | packages.NeedTypes | packages.NeedSyntax | packages.NeedTypesInfo | packages.NeedTypesSizes | packages.NeedModule,
		Dir:        *flagRepo,
		Overlay:    overlay,
		BuildFlags: []string{"-tags=verif", "-mod=mod"},
		Env:        append(os.Environ(), "GOFLAGS=-mod=mod", "GOPROXY=off", "GOSUMDB=off", "GOTOOLCHAIN=local"),
		ParseFile: func(fset *token.FileSet, filename string, src []byte) (*ast.File, error) {
			f, err := parser.ParseFile(fset, filename, src, parser.AllErrors|parser.ParseComments)
			if err == nil && !keepBodies(filename) {
				// this package is never executed by the engine: drop function
				// bodies so that type-checking and SSA construction are cheap.
				// A call into such a function ends the path as "unsupported".
				for _, d := range f.Decls {
					if fd, ok := d.(*ast.FuncDecl); ok {
						fd.Body = nil
					}
				}
			}
			return f, err
		},
	}
	pkgs, err := packages.Load(cfg, "./"+pkgPath(*flagPkg))
	if err != nil {
		fmt.Fprintln(os.Stderr, "load:", err)
		os.Exit(2)
	}
	nerr := 0
	packages.Visit(pkgs, nil, func(p *packages.Package) {
		kept := len(p.GoFiles) > 0 && keepBodies(p.GoFiles[0])
		for _, e := range p.Errors {
			if !kept {
				continue // body-stripped package: unused imports etc.
			}
			fmt.Fprintln(os.Stderr, "package error:", e)
			nerr++
		}
	})
	if nerr > 0 {
		os.Exit(2)
	}
	// like ssautil.AllPackages, but body-stripped dependencies carry soft type
	// errors (unused imports) that must not disqualify their dependents.
	prog := ssa.NewProgram(pkgs[0].Fset, ssa.InstantiateGenerics)
	var target *ssa.Package
	packages.Visit(pkgs, nil, func(p *packages.Package) {
		if p.Types != nil && p.TypesInfo != nil {
			sp := prog.CreatePackage(p.Types, p.Syntax, p.TypesInfo, true)
			if p == pkgs[0] {
				target = sp
			}
		}
	})
	_ = ssautil.AllPackages
	if target == nil {
		fmt.Fprintln(os.Stderr, "no SSA package")
		os.Exit(2)
	}
	target.Build()
	loadS := time.Since(t0).Seconds()

	type output struct {
		Pkg     string           `json:"pkg"`
		Tier    string           `json:"tier"`
		LoadS   float64          `json:"load_s"`
		Results []*harnessResult `json:"results"`
	}
	out := output{Pkg: *flagPkg, Tier: *flagTier, LoadS: loadS}

	sort.Slice(decls, func(i, j int) bool { return decls[i].Name < decls[j].Name })
	for _, d := range decls {
		if !re.MatchString(d.Name) {
			continue
		}
		if t, ok := d.Dirs["tier"]; ok && t == "thorough" && *flagTier != "thorough" {
			continue
		}
		fn := target.Func(d.Name)
		if fn == nil {
			fmt.Fprintln(os.Stderr, "harness not found in SSA:", d.Name)
			os.Exit(2)
		}
		hc := defaultCfg()
		hc.numCPU = 2
		applyDirs(&hc, d.Dirs, *flagTier)
		if *flagSolver != "" {
			hc.solver = *flagSolver
		}
		if *flagMaxPaths > 0 {
			hc.maxPaths = *flagMaxPaths
		}
		if *flagWall > 0 {
			hc.wallLimit = time.Duration(*flagWall) * time.Second
		}
		in := &Interp{
			prog:    prog,
			globals: map[*ssa.Global]*value{},
			inited:  map[*ssa.Package]bool{},
			infos:   map[*ssa.Function]*fnInfo{},
			vsymFn:  map[*ssa.Function]bool{},
			cfg:     hc,
			trace:   *flagTrace,
			tier:    *flagTier,
		}
		in.mapReverse = *flagMapRev
		in.noMerge = *flagNoMerge
		if *flagConcrete > 0 || *flagReplay != "" {
			res := &harnessResult{Name: d.Name, Pkg: *flagPkg}
			if *flagReplay != "" {
				vals := map[string]uint64{}
				raw, err := os.ReadFile(*flagReplay)
				if err != nil {
					panic(err)
				}
				var m struct {
					Inputs map[string]string `json:"inputs"`
				}
				if err := json.Unmarshal(raw, &m); err != nil {
					panic(err)
				}
				for k, v := range m.Inputs {
					u, _ := strconv.ParseUint(v, 10, 64)
					vals[k] = u
				}
				tr := in.runConcrete(fn, d.Name, 0, vals)
				res.Traces = append(res.Traces, strings.Join(tr, "\n"))
			} else {
				for s := 0; s < *flagConcrete; s++ {
					tr := in.runConcrete(fn, d.Name, *flagSeed+uint64(s), nil)
					res.Traces = append(res.Traces, strings.Join(tr, "\n"))
				}
			}
			out.Results = append(out.Results, res)
			continue
		}
		s, err := newSolver(hc.solver, hc.timeoutMs)
		if err != nil {
			fmt.Fprintln(os.Stderr, "solver:", err)
			os.Exit(2)
		}
		in.solver = s
		if os.Getenv("GOSYM_PROF") != "" {
			in.prof = map[string]int{}
		}
		var prefixes [][]decision
		if *flagPrefixes != "" {
			raw, err := os.ReadFile(*flagPrefixes)
			if err != nil {
				panic(err)
			}
			if err := json.Unmarshal(raw, &prefixes); err != nil {
				panic(err)
			}
		}
		splitD := 0
		if v, ok := d.Dirs["split"]; ok && *flagWorkers > 1 && *flagPrefixes == "" {
			splitD, _ = strconv.Atoi(v)
		}
		in.splitDepth = splitD
		res := in.explore(fn, d.Name, prefixes)
		if len(res.Frontier) > 0 {
			mergeWorkers(res, runWorkers(d.Name, res.Frontier, hc))
		}
		if in.prof != nil {
			type kv struct {
				k string
				v int
			}
			var kvs []kv
			for k, v := range in.prof {
				kvs = append(kvs, kv{k, v})
			}
			sort.Slice(kvs, func(i, j int) bool { return kvs[i].v > kvs[j].v })
			for i, e := range kvs {
				if i > 25 {
					break
				}
				fmt.Fprintf(os.Stderr, "  prof %6d %s\n", e.v, e.k)
			}
		}
		res.Pkg = *flagPkg
		s.close()
		out.Results = append(out.Results, res)
		fmt.Fprintf(os.Stderr, "%s: paths=%d decisions=%d asserts=%d/%d viol=%d unsup=%d bound=%d inconcl=%d queries=%d solver=%.1fs wall=%.1fs\n",
			d.Name, res.Paths, res.Decisions, res.Discharged, res.Assertions, len(res.Violations), len(res.Unsupported), len(res.BoundEnds), res.Inconclusive, res.SolverQueries, res.SolverSecs, res.WallS)
		for m, n := range res.Unsupported {
			fmt.Fprintf(os.Stderr, "   unsupported x%d: %s\n", n, m)
		}
		for m, n := range res.BoundEnds {
			fmt.Fprintf(os.Stderr, "   bound x%d: %s\n", n, m)
		}
		for _, e := range res.EngineErrors {
			fmt.Fprintf(os.Stderr, "   engine error: %s\n", e)
		}
		for _, e := range res.SolverErrors {
			fmt.Fprintf(os.Stderr, "   solver error: %s\n", e)
		}
		for _, v := range res.Violations {
			fmt.Fprintf(os.Stderr, "   VIOLATION %s: %s %v\n", v.Kind, v.Msg, v.Inputs)
		}
	}
	b, _ := json.MarshalIndent(out, "", " ")
	if *flagOut != "" {
		os.WriteFile(*flagOut, b, 0o644)
	} else {
		fmt.Println(string(b))
	}
}

// runWorkers distributes prefixes over worker processes of this binary.
func runWorkers(name string, frontier [][]decision, hc harnessCfg) []*harnessResult {
	n := *flagWorkers
	if n > len(frontier) {
		n = len(frontier)
	}
	groups := make([][][]decision, n)
	for i, pf := range frontier {
		groups[i%n] = append(groups[i%n], pf)
	}
	dir, err := os.MkdirTemp("", "gosym_workers_")
	if err != nil {
		panic(err)
	}
	defer os.RemoveAll(dir)
	exe, _ := os.Executable()
	type job struct {
		cmd *exec.Cmd
		out string
	}
	var jobs []job
	for i, g := range groups {
		pf := filepath.Join(dir, fmt.Sprintf("prefix_%d.json", i))
		raw, _ := json.Marshal(g)
		os.WriteFile(pf, raw, 0o644)
		out := filepath.Join(dir, fmt.Sprintf("out_%d.json", i))
		args := []string{"-pkg", *flagPkg, "-run", name, "-tier", *flagTier, "-prefixes", pf, "-out", out, "-verif", verifDir(), "-repo", *flagRepo}
		if *flagSolver != "" {
			args = append(args, "-solver", *flagSolver)
		}
		if *flagWall > 0 {
			args = append(args, "-wall", strconv.Itoa(*flagWall))
		}
		if *flagMapRev {
			args = append(args, "-maprev")
		}
		cmd := exec.Command(exe, args...)
		cmd.Stderr = nil
		if err := cmd.Start(); err != nil {
			panic(err)
		}
		jobs = append(jobs, job{cmd, out})
	}
	var results []*harnessResult
	for _, j := range jobs {
		err := j.cmd.Wait()
		raw, rerr := os.ReadFile(j.out)
		if err != nil || rerr != nil {
			results = append(results, &harnessResult{Name: name, EngineErrors: []string{fmt.Sprintf("worker failed: %v %v", err, rerr)}})
			continue
		}
		var o struct {
			Results []*harnessResult `json:"results"`
		}
		if err := json.Unmarshal(raw, &o); err != nil || len(o.Results) != 1 {
			results = append(results, &harnessResult{Name: name, EngineErrors: []string{"worker output unreadable"}})
			continue
		}
		results = append(results, o.Results[0])
	}
	return results
}

func mergeWorkers(res *harnessResult, ws []*harnessResult) {
	res.Workers = len(ws)
	funcs := map[string]bool{}
	for _, f := range res.Funcs {
		funcs[f] = true
	}
	addMap := func(dst, src map[string]int) map[string]int {
		if dst == nil {
			dst = map[string]int{}
		}
		for k, v := range src {
			dst[k] += v
		}
		return dst
	}
	for _, w := range ws {
		res.Paths += w.Paths
		res.Decisions += w.Decisions
		res.FeasQueries += w.FeasQueries
		res.Assertions += w.Assertions
		res.Discharged += w.Discharged
		res.Inconclusive += w.Inconclusive
		res.UnknownFeas += w.UnknownFeas
		res.AssumeEnds += w.AssumeEnds
		res.Unsupported = addMap(res.Unsupported, w.Unsupported)
		res.BoundEnds = addMap(res.BoundEnds, w.BoundEnds)
		res.Stubs = addMap(res.Stubs, w.Stubs)
		res.Reached = addMap(res.Reached, w.Reached)
		for _, v := range w.Violations {
			dup := false
			for _, o := range res.Violations {
				if o.Msg == v.Msg && o.Kind == v.Kind {
					dup = true
				}
			}
			if !dup {
				res.Violations = append(res.Violations, v)
			}
		}
		for _, f := range w.Funcs {
			funcs[f] = true
		}
		res.SolverQueries += w.SolverQueries
		res.SolverSecs += w.SolverSecs
		res.SolverErrors = append(res.SolverErrors, w.SolverErrors...)
		res.EngineErrors = append(res.EngineErrors, w.EngineErrors...)
		if len(res.Samples) < 8 {
			res.Samples = append(res.Samples, w.Samples...)
		}
		if !w.Complete {
			res.Complete = false
		}
		if w.WallS > 0 {
			res.WallS += 0
		}
	}
	res.Funcs = res.Funcs[:0]
	for f := range funcs {
		res.Funcs = append(res.Funcs, f)
	}
	sort.Strings(res.Funcs)
}

// pkgPath maps a harness directory name to the package path relative to the
// module root ("_root" is the module's root package).
func pkgPath(p string) string {
	if p == "_root" {
		return "."
	}
	return p
}

func applyDirs(hc *harnessCfg, dirs map[string]string, tier string) {
	geti := func(k string) (int, bool) {
		// tier-specific override: key.thorough
		if tier == "thorough" {
			if v, ok := dirs[k+".thorough"]; ok {
				n, err := strconv.Atoi(v)
				return n, err == nil
			}
		}
		if v, ok := dirs[k]; ok {
			n, err := strconv.Atoi(v)
			return n, err == nil
		}
		return 0, false
	}
	if n, ok := geti("steps"); ok {
		hc.maxSteps = n
	}
	if n, ok := geti("decisions"); ok {
		hc.maxDecisions = n
	}
	if n, ok := geti("depth"); ok {
		hc.maxDepth = n
	}
	if n, ok := geti("paths"); ok {
		hc.maxPaths = n
	}
	if n, ok := geti("concretize"); ok {
		hc.maxConcretize = n
	}
	if n, ok := geti("timeout"); ok {
		hc.timeoutMs = n
	}
	if n, ok := geti("wall"); ok {
		hc.wallLimit = time.Duration(n) * time.Second
	}
	if n, ok := geti("sched"); ok {
		hc.maxSchedPoints = n
	}
	if n, ok := geti("preempt"); ok {
		hc.maxPreemptions = n
	}
	if n, ok := geti("indexfork"); ok {
		hc.forkIndexBelow = n
	}
	if n, ok := geti("cpus"); ok {
		hc.numCPU = n
	}
	if v, ok := dirs["solver"]; ok {
		hc.solver = v
	}
	if _, ok := dirs["recursion"]; ok {
		hc.recursionIsViolation = true
	}
	if _, ok := dirs["concurrent"]; ok {
		hc.concurrent = true
	}
}

var stdKeep = map[string]bool{
	"errors": true, "sort": true, "strings": true, "strconv": true, "bytes": true, "unicode": true,
	"unicode/utf8": true, "unicode/utf16": true, "math": true, "math/bits": true, "math/cmplx": true,
	"encoding/binary": true, "container/heap": true, "container/list": true, "slices": true, "maps": true,
	"cmp": true, "io": true, "sync": true, "sync/atomic": true, "hash/fnv": true, "hash": true, "iter": true,
	"internal/itoa": true, "internal/stringslite": true, "hash/crc32": true, "encoding/hex": true,
}

var goroot string

// keepBodies decides whether the functions of the file's package are kept for
// symbolic execution.
func keepBodies(filename string) bool {
	if strings.HasPrefix(filename, "/repo/") || strings.HasPrefix(filename, *flagRepo) {
		return true
	}
	for _, m := range []string{"/github.com/golang/geo@", "/golang.org/x/mod@", "/golang.org/x/exp@", "/golang.org/x/sync@"} {
		if strings.Contains(filename, m) {
			return true
		}
	}
	if goroot == "" {
		goroot = runtime.GOROOT()
		if out, err := exec.Command("go", "env", "GOROOT").Output(); err == nil {
			goroot = strings.TrimSpace(string(out))
		}
	}
	src := filepath.Join(goroot, "src") + "/"
	if strings.HasPrefix(filename, src) {
		dir := filepath.Dir(strings.TrimPrefix(filename, src))
		return stdKeep[dir]
	}
	return false
}
