package main

// gosym: bounded symbolic execution of Go functions from go/ssa.
//
//   gosym -pkg <rel pkg under the b6 module> -run <regexp> [-tier quick|thorough]
//         [-out result.json] [-concrete N] [-seed S] [-replay values.json]
//
// Harness files are taken from $VERIF/harness/<pkg>/zz_*.go and overlaid into
// the package directory of /repo (nothing is written to /repo).

import (
	"encoding/json"
	"flag"
	"fmt"
	"go/ast"
	"go/parser"
	"go/token"
	"os"
	"path/filepath"
	"regexp"
	"sort"
	"strconv"
	"strings"
	"time"

	"golang.org/x/tools/go/packages"
	"golang.org/x/tools/go/ssa"
	"golang.org/x/tools/go/ssa/ssautil"
)

var (
	flagPkg      = flag.String("pkg", "", "package directory relative to the module root (e.g. encoding)")
	flagRun      = flag.String("run", "", "regexp of harness function names")
	flagTier     = flag.String("tier", "quick", "quick|thorough")
	flagOut      = flag.String("out", "", "write JSON results here")
	flagConcrete = flag.Int("concrete", 0, "run N seeded concrete executions (translator validation) instead of symbolic exploration")
	flagSeed     = flag.Uint64("seed", 1, "seed for concrete executions")
	flagReplay   = flag.String("replay", "", "JSON file with input values: run concretely with them")
	flagList     = flag.Bool("list", false, "list harnesses")
	flagRepo     = flag.String("repo", "/repo/src/diagonal.works/b6", "module root")
	flagVerif    = flag.String("verif", "", "verif dir (default: dir of executable/..)")
	flagTrace    = flag.Bool("trace", false, "trace instructions")
	flagSolver   = flag.String("solver", "", "override solver")
	flagMaxPaths = flag.Int("maxpaths", 0, "override max paths")
	flagWall     = flag.Int("wall", 0, "override wall limit (seconds)")
	flagMapRev   = flag.Bool("maprev", false, "iterate maps in reverse insertion order")
)

type harnessDecl struct {
	Name string
	Dirs map[string]string // directives
}

func verifDir() string {
	if *flagVerif != "" {
		return *flagVerif
	}
	exe, err := os.Executable()
	if err == nil {
		return filepath.Dir(filepath.Dir(exe))
	}
	return "/verif"
}

func main() {
	flag.Parse()
	if *flagPkg == "" {
		fmt.Fprintln(os.Stderr, "need -pkg")
		os.Exit(2)
	}
	vd := verifDir()
	hdir := filepath.Join(vd, "harness", *flagPkg)
	pkgDir := filepath.Join(*flagRepo, *flagPkg)
	files, _ := filepath.Glob(filepath.Join(hdir, "zz_*.go"))
	if len(files) == 0 {
		fmt.Fprintln(os.Stderr, "no harness files in", hdir)
		os.Exit(2)
	}
	overlay := map[string][]byte{}
	var decls []harnessDecl
	pkgName := ""
	fset := token.NewFileSet()
	for _, f := range files {
		if strings.HasSuffix(f, "_test.go") {
			continue
		}
		src, err := os.ReadFile(f)
		if err != nil {
			panic(err)
		}
		overlay[filepath.Join(pkgDir, filepath.Base(f))] = src
		af, err := parser.ParseFile(fset, f, src, parser.ParseComments)
		if err != nil {
			fmt.Fprintln(os.Stderr, "parse error:", err)
			os.Exit(2)
		}
		pkgName = af.Name.Name
		for _, d := range af.Decls {
			fd, ok := d.(*ast.FuncDecl)
			if !ok || fd.Recv != nil || !strings.HasPrefix(fd.Name.Name, "VH_") {
				continue
			}
			hd := harnessDecl{Name: fd.Name.Name, Dirs: map[string]string{}}
			if fd.Doc != nil {
				for _, c := range fd.Doc.List {
					if strings.HasPrefix(c.Text, "//vh:") {
						for _, kv := range strings.Fields(c.Text[5:]) {
							if i := strings.IndexByte(kv, '='); i >= 0 {
								hd.Dirs[kv[:i]] = kv[i+1:]
							} else {
								hd.Dirs[kv] = "1"
							}
						}
					}
				}
			}
			decls = append(decls, hd)
		}
	}
	// the shared API file
	vsym, err := os.ReadFile(filepath.Join(vd, "harness", "vsym.go.tmpl"))
	if err != nil {
		panic(err)
	}
	overlay[filepath.Join(pkgDir, "zz_vsym.go")] = []byte(strings.Replace(string(vsym), "package PKGNAME", "package "+pkgName, 1))

	re := regexp.MustCompile(".*")
	if *flagRun != "" {
		re = regexp.MustCompile("^(" + *flagRun + ")$")
	}
	if *flagList {
		for _, d := range decls {
			if re.MatchString(d.Name) {
				b, _ := json.Marshal(d)
				fmt.Println(string(b))
			}
		}
		return
	}

	t0 := time.Now()
	cfg := &packages.Config{
		Mode:       packages.NeedName | packages.NeedFiles | packages.NeedCompiledGoFiles | packages.NeedImports | packages.NeedDeps | packages.NeedTypes | packages.NeedSyntax | packages.NeedTypesInfo | packages.NeedTypesSizes | packages.NeedModule,
		Dir:        *flagRepo,
		Overlay:    overlay,
		BuildFlags: []string{"-tags=verif", "-mod=mod"},
		Env:        append(os.Environ(), "GOFLAGS=-mod=mod", "GOPROXY=off", "GOSUMDB=off", "GOTOOLCHAIN=local"),
	}
	pkgs, err := packages.Load(cfg, "./"+*flagPkg)
	if err != nil {
		fmt.Fprintln(os.Stderr, "load:", err)
		os.Exit(2)
	}
	nerr := 0
	for _, p := range pkgs {
		for _, e := range p.Errors {
			fmt.Fprintln(os.Stderr, "package error:", e)
			nerr++
		}
	}
	if nerr > 0 {
		os.Exit(2)
	}
	prog, spkgs := ssautil.AllPackages(pkgs, ssa.InstantiateGenerics)
	var target *ssa.Package
	for _, sp := range spkgs {
		if sp != nil {
			target = sp
		}
	}
	if target == nil {
		fmt.Fprintln(os.Stderr, "no SSA package")
		os.Exit(2)
	}
	target.Build()
	loadS := time.Since(t0).Seconds()

	type output struct {
		Pkg     string           `json:"pkg"`
		Tier    string           `json:"tier"`
		LoadS   float64          `json:"load_s"`
		Results []*harnessResult `json:"results"`
	}
	out := output{Pkg: *flagPkg, Tier: *flagTier, LoadS: loadS}

	sort.Slice(decls, func(i, j int) bool { return decls[i].Name < decls[j].Name })
	for _, d := range decls {
		if !re.MatchString(d.Name) {
			continue
		}
		if t, ok := d.Dirs["tier"]; ok && t == "thorough" && *flagTier != "thorough" {
			continue
		}
		fn := target.Func(d.Name)
		if fn == nil {
			fmt.Fprintln(os.Stderr, "harness not found in SSA:", d.Name)
			os.Exit(2)
		}
		hc := defaultCfg()
		hc.numCPU = 2
		applyDirs(&hc, d.Dirs, *flagTier)
		if *flagSolver != "" {
			hc.solver = *flagSolver
		}
		if *flagMaxPaths > 0 {
			hc.maxPaths = *flagMaxPaths
		}
		if *flagWall > 0 {
			hc.wallLimit = time.Duration(*flagWall) * time.Second
		}
		in := &Interp{
			prog:    prog,
			globals: map[*ssa.Global]*value{},
			inited:  map[*ssa.Package]bool{},
			infos:   map[*ssa.Function]*fnInfo{},
			vsymFn:  map[*ssa.Function]bool{},
			cfg:     hc,
			trace:   *flagTrace,
			tier:    *flagTier,
		}
		in.mapReverse = *flagMapRev
		if *flagConcrete > 0 || *flagReplay != "" {
			res := &harnessResult{Name: d.Name, Pkg: *flagPkg}
			if *flagReplay != "" {
				vals := map[string]uint64{}
				raw, err := os.ReadFile(*flagReplay)
				if err != nil {
					panic(err)
				}
				var m struct {
					Inputs map[string]string `json:"inputs"`
				}
				if err := json.Unmarshal(raw, &m); err != nil {
					panic(err)
				}
				for k, v := range m.Inputs {
					u, _ := strconv.ParseUint(v, 10, 64)
					vals[k] = u
				}
				tr := in.runConcrete(fn, d.Name, 0, vals)
				res.Traces = append(res.Traces, strings.Join(tr, "\n"))
			} else {
				for s := 0; s < *flagConcrete; s++ {
					tr := in.runConcrete(fn, d.Name, *flagSeed+uint64(s), nil)
					res.Traces = append(res.Traces, strings.Join(tr, "\n"))
				}
			}
			out.Results = append(out.Results, res)
			continue
		}
		s, err := newSolver(hc.solver, hc.timeoutMs)
		if err != nil {
			fmt.Fprintln(os.Stderr, "solver:", err)
			os.Exit(2)
		}
		in.solver = s
		res := in.explore(fn, d.Name)
		res.Pkg = *flagPkg
		s.close()
		out.Results = append(out.Results, res)
		fmt.Fprintf(os.Stderr, "%s: paths=%d decisions=%d asserts=%d/%d viol=%d unsup=%d bound=%d inconcl=%d queries=%d solver=%.1fs wall=%.1fs\n",
			d.Name, res.Paths, res.Decisions, res.Discharged, res.Assertions, len(res.Violations), len(res.Unsupported), len(res.BoundEnds), res.Inconclusive, res.SolverQueries, res.SolverSecs, res.WallS)
		for m, n := range res.Unsupported {
			fmt.Fprintf(os.Stderr, "   unsupported x%d: %s\n", n, m)
		}
		for m, n := range res.BoundEnds {
			fmt.Fprintf(os.Stderr, "   bound x%d: %s\n", n, m)
		}
		for _, e := range res.EngineErrors {
			fmt.Fprintf(os.Stderr, "   engine error: %s\n", e)
		}
		for _, e := range res.SolverErrors {
			fmt.Fprintf(os.Stderr, "   solver error: %s\n", e)
		}
		for _, v := range res.Violations {
			fmt.Fprintf(os.Stderr, "   VIOLATION %s: %s %v\n", v.Kind, v.Msg, v.Inputs)
		}
	}
	b, _ := json.MarshalIndent(out, "", " ")
	if *flagOut != "" {
		os.WriteFile(*flagOut, b, 0o644)
	} else {
		fmt.Println(string(b))
	}
}

func applyDirs(hc *harnessCfg, dirs map[string]string, tier string) {
	geti := func(k string) (int, bool) {
		// tier-specific override: key.thorough
		if tier == "thorough" {
			if v, ok := dirs[k+".thorough"]; ok {
				n, err := strconv.Atoi(v)
				return n, err == nil
			}
		}
		if v, ok := dirs[k]; ok {
			n, err := strconv.Atoi(v)
			return n, err == nil
		}
		return 0, false
	}
	if n, ok := geti("steps"); ok {
		hc.maxSteps = n
	}
	if n, ok := geti("decisions"); ok {
		hc.maxDecisions = n
	}
	if n, ok := geti("depth"); ok {
		hc.maxDepth = n
	}
	if n, ok := geti("paths"); ok {
		hc.maxPaths = n
	}
	if n, ok := geti("concretize"); ok {
		hc.maxConcretize = n
	}
	if n, ok := geti("timeout"); ok {
		hc.timeoutMs = n
	}
	if n, ok := geti("wall"); ok {
		hc.wallLimit = time.Duration(n) * time.Second
	}
	if n, ok := geti("sched"); ok {
		hc.maxSchedPoints = n
	}
	if n, ok := geti("cpus"); ok {
		hc.numCPU = n
	}
	if v, ok := dirs["solver"]; ok {
		hc.solver = v
	}
	if _, ok := dirs["concurrent"]; ok {
		hc.concurrent = true
	}
}
