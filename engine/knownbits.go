package main

import "math/bits"

// Known-bits abstract domain: k0 = bits known to be 0, k1 = bits known to be 1
// (within the term's width). Computed once per hash-consed term.

func (t *Term) computeKnown() {
	if t.sort.k != sBV {
		return
	}
	w := t.sort.w
	m := maskW(w)
	switch t.op {
	case "const":
		t.k1 = t.cval
		t.k0 = ^t.cval & m
	case "var", "uf":
	case "bvand":
		a, b := t.args[0], t.args[1]
		t.k0 = a.k0 | b.k0
		t.k1 = a.k1 & b.k1
	case "bvor":
		a, b := t.args[0], t.args[1]
		t.k1 = a.k1 | b.k1
		t.k0 = a.k0 & b.k0
	case "bvxor":
		a, b := t.args[0], t.args[1]
		known := (a.k0 | a.k1) & (b.k0 | b.k1)
		v := (a.k1 ^ b.k1) & known
		t.k1 = v
		t.k0 = known &^ v
	case "bvnot":
		a := t.args[0]
		t.k0, t.k1 = a.k1, a.k0
	case "zext":
		a := t.args[0]
		t.k1 = a.k1
		t.k0 = a.k0 | (m &^ maskW(a.sort.w))
	case "sext":
		a := t.args[0]
		aw := a.sort.w
		t.k1 = a.k1
		t.k0 = a.k0
		hi := m &^ maskW(aw)
		if a.k0>>(uint(aw)-1)&1 == 1 {
			t.k0 |= hi
		} else if a.k1>>(uint(aw)-1)&1 == 1 {
			t.k1 |= hi
		}
	case "extract":
		a := t.args[0]
		t.k0 = (a.k0 >> uint(t.p2)) & m
		t.k1 = (a.k1 >> uint(t.p2)) & m
	case "concat":
		hi, lo := t.args[0], t.args[1]
		lw := uint(lo.sort.w)
		t.k0 = (hi.k0<<lw | lo.k0) & m
		t.k1 = (hi.k1<<lw | lo.k1) & m
	case "bvshl":
		a, b := t.args[0], t.args[1]
		if b.isConst() && b.cval < uint64(w) {
			s := uint(b.cval)
			t.k0 = ((a.k0 << s) | maskW(int(s))) & m
			t.k1 = (a.k1 << s) & m
		}
	case "bvlshr":
		a, b := t.args[0], t.args[1]
		if b.isConst() && b.cval < uint64(w) {
			s := uint(b.cval)
			t.k0 = (a.k0 >> s) | (m &^ (m >> s))
			t.k1 = a.k1 >> s
		} else {
			// result <= a: leading known zeros are preserved
			lz := leadingKnownZeros(a, w)
			t.k0 = m &^ maskW(w-lz)
		}
	case "bvashr":
		a, b := t.args[0], t.args[1]
		if b.isConst() && b.cval < uint64(w) && a.k0>>(uint(w)-1)&1 == 1 {
			s := uint(b.cval)
			t.k0 = (a.k0 >> s) | (m &^ (m >> s))
			t.k1 = a.k1 >> s
		}
	case "ite":
		a, b := t.args[1], t.args[2]
		t.k0 = a.k0 & b.k0
		t.k1 = a.k1 & b.k1
	case "bvurem":
		b := t.args[1]
		if b.isConst() && b.cval > 0 {
			n := bits.Len64(b.cval - 1)
			t.k0 = m &^ maskW(n)
		}
	case "bvudiv":
		a, b := t.args[0], t.args[1]
		if b.isConst() && b.cval > 0 {
			// result <= a / c
			lz := leadingKnownZeros(a, w)
			maxA := maskW(w - lz)
			n := bits.Len64(maxA / b.cval)
			t.k0 = m &^ maskW(n)
		}
	case "bvadd":
		a, b := t.args[0], t.args[1]
		// upper bound: max(a)+max(b)
		la, lb := leadingKnownZeros(a, w), leadingKnownZeros(b, w)
		if la > 0 && lb > 0 {
			maxA, maxB := maskW(w-la), maskW(w-lb)
			sum := maxA + maxB
			if sum >= maxA { // no 64-bit overflow
				n := bits.Len64(sum)
				if n < w {
					t.k0 = m &^ maskW(n)
				}
			}
		}
		// trailing zeros
		tz := trailingKnownZeros(a, w)
		if z := trailingKnownZeros(b, w); z < tz {
			tz = z
		}
		t.k0 |= maskW(tz)
	case "bvmul":
		a, b := t.args[0], t.args[1]
		tz := trailingKnownZeros(a, w) + trailingKnownZeros(b, w)
		if tz > w {
			tz = w
		}
		t.k0 = maskW(tz)
	}
	t.k0 &= m
	t.k1 &= m
}

func leadingKnownZeros(t *Term, w int) int {
	n := 0
	for i := w - 1; i >= 0; i-- {
		if t.k0>>uint(i)&1 == 1 {
			n++
		} else {
			break
		}
	}
	return n
}

func trailingKnownZeros(t *Term, w int) int {
	n := 0
	for i := 0; i < w; i++ {
		if t.k0>>uint(i)&1 == 1 {
			n++
		} else {
			break
		}
	}
	return n
}

// umin/umax: unsigned range implied by known bits.
func (t *Term) umin() uint64 { return t.k1 }
func (t *Term) umax() uint64 { return maskW(t.sort.w) &^ t.k0 }
