package main

import (
	"fmt"
	"go/token"
	"go/types"
	"math"
	"math/bits"
	"sort"
	"strconv"
	"strings"
	"unicode"
	"unicode/utf8"

	"golang.org/x/tools/go/ssa"
)

type intrinsic func(in *Interp, caller *frame, fn *ssa.Function, args []value) (value, bool)

var intrinsics = map[string]intrinsic{}

func noop(in *Interp, caller *frame, fn *ssa.Function, args []value) (value, bool) {
	return nil, true
}

func allConcrete(args []value) bool {
	for _, a := range args {
		switch a := a.(type) {
		case *Term, *SymStr, poison:
			return false
		case []value:
			for _, e := range a {
				if _, ok := e.(uint64); !ok {
					if _, ok := e.(string); !ok {
						return false
					}
				}
			}
		}
	}
	return true
}

func bytesOf(v value) []byte {
	s := v.([]value)
	b := make([]byte, len(s))
	for i, e := range s {
		b[i] = byte(e.(uint64))
	}
	return b
}

func valuesOfBytes(b []byte) []value {
	r := make([]value, len(b))
	for i, x := range b {
		r[i] = uint64(x)
	}
	return r
}

func i64(v value) int64 { return int64(v.(uint64)) }

func (in *Interp) mkError(msg string) value {
	// build *errors.errorString via errors.New
	pkg := in.prog.ImportedPackage("errors")
	if pkg == nil {
		panic(unsupported{"errors package not loaded"})
	}
	return in.callSSA(nil, token.NoPos, pkg.Func("New"), []value{msg}, nil, false)
}

// nativeOf converts an interface-boxed engine value into a native Go value for
// formatting. ok=false if that is not possible faithfully.
func (in *Interp) nativeOf(itf iface, verb byte) (interface{}, bool) {
	if itf.t == nil {
		return nil, true
	}
	// error / Stringer
	if verb == 's' || verb == 'v' || verb == 'q' {
		for _, m := range []string{"Error", "String"} {
			if f := in.lookupMethodByName(itf.t, m); f != nil {
				sig := f.Signature
				if sig.Params().Len() == 0 && sig.Results().Len() == 1 && isString(sig.Results().At(0).Type()) {
					r := in.callSSA(nil, token.NoPos, f, []value{itf.v}, nil, false)
					if s, ok := r.(string); ok {
						return s, true
					}
					return nil, false
				}
			}
		}
	}
	switch v := itf.v.(type) {
	case bool:
		return v, true
	case string:
		return v, true
	case float64:
		if isFloat32(itf.t) {
			return float32(v), true
		}
		return v, true
	case uint64:
		w, signed, ok := intInfo(itf.t)
		if !ok {
			return nil, false
		}
		b := itf.t.Underlying().(*types.Basic)
		switch {
		case b.Kind() == types.Uintptr:
			return uintptr(v), true
		case signed && w == 64:
			if b.Kind() == types.Int {
				return int(v), true
			}
			return int64(v), true
		case signed && w == 32:
			return int32(v), true
		case signed && w == 16:
			return int16(v), true
		case signed && w == 8:
			return int8(v), true
		case w == 64:
			if b.Kind() == types.Uint {
				return uint(v), true
			}
			return v, true
		case w == 32:
			return uint32(v), true
		case w == 16:
			return uint16(v), true
		default:
			return uint8(v), true
		}
	case []value:
		if sl, ok := itf.t.Underlying().(*types.Slice); ok {
			if w, _, _ := intInfo(sl.Elem()); w == 8 && allConcrete([]value{v}) {
				return bytesOf(v), true
			}
			if isString(sl.Elem()) && allConcrete([]value{v}) {
				var ss []string
				for _, e := range v {
					ss = append(ss, e.(string))
				}
				return ss, true
			}
		}
	case *value:
		if v == nil {
			return nil, false
		}
	}
	return nil, false
}

func (in *Interp) lookupMethodByName(t types.Type, name string) *ssa.Function {
	if t == rtErrorType {
		return nil
	}
	ms := in.prog.MethodSets.MethodSet(t)
	for i := 0; i < ms.Len(); i++ {
		sel := ms.At(i)
		if sel.Obj().Name() == name {
			return in.prog.MethodValue(sel)
		}
	}
	return nil
}

type opaqueArg struct{ s string }

func (o opaqueArg) Format(f fmt.State, verb rune) { f.Write([]byte(o.s)) }

// sprintf formats natively; arguments that cannot be converted are printed as
// an opaque marker (the result is then only good as a message).
func (in *Interp) sprintf(format string, args []value) value {
	// verbs per argument (approximate: sequential, no explicit indexes)
	var verbs []byte
	for i := 0; i < len(format); i++ {
		if format[i] != '%' {
			continue
		}
		i++
		for i < len(format) && strings.IndexByte("+-# 0123456789.*", format[i]) >= 0 {
			i++
		}
		if i < len(format) && format[i] != '%' {
			verbs = append(verbs, format[i])
		}
	}
	nat := make([]interface{}, len(args))
	symbolic := false
	for i, a := range args {
		itf, ok := a.(iface)
		if !ok {
			nat[i] = opaqueArg{"<?>"}
			continue
		}
		verb := byte('v')
		if i < len(verbs) {
			verb = verbs[i]
		}
		if containsSym(itf.v) {
			symbolic = true
			continue
		}
		n, ok := in.nativeOf(itf, verb)
		if !ok {
			in.stats.opaqueFormats++
			nat[i] = opaqueArg{"<" + itf.t.String() + ">"}
			continue
		}
		nat[i] = n
	}
	if symbolic {
		return in.symSprintf(format, args)
	}
	return fmt.Sprintf(format, nat...)
}

// symSprintf handles %s %v %d on symbolic strings/ints by building a SymStr.
func (in *Interp) symSprintf(format string, args []value) value {
	var out []value
	ai := 0
	for i := 0; i < len(format); i++ {
		c := format[i]
		if c != '%' {
			out = append(out, uint64(c))
			continue
		}
		i++
		if i >= len(format) {
			break
		}
		if format[i] == '%' {
			out = append(out, uint64('%'))
			continue
		}
		// flags/width
		start := i
		for i < len(format) && strings.IndexByte("+-# 0123456789.", format[i]) >= 0 {
			i++
		}
		spec := format[start:i]
		verb := format[i]
		if ai >= len(args) {
			out = append(out, strBytes("%!"+string(verb)+"(MISSING)")...)
			continue
		}
		itf := args[ai].(iface)
		ai++
		if !containsSym(itf.v) {
			n, ok := in.nativeOf(itf, verb)
			if !ok {
				in.stats.opaqueFormats++
				n = opaqueArg{"<" + itf.t.String() + ">"}
			}
			out = append(out, strBytes(fmt.Sprintf("%"+spec+string(verb), n))...)
			continue
		}
		switch v := itf.v.(type) {
		case *SymStr:
			if (verb == 's' || verb == 'v') && spec == "" {
				out = append(out, v.b...)
				continue
			}
		case *Term:
			if w, signed, ok := intInfo(itf.t); ok && (verb == 'd' || verb == 'v') {
				// String()/Error() methods take precedence for %v
				if verb == 'v' {
					if f := in.lookupMethodByName(itf.t, "String"); f != nil {
						r := in.callSSA(nil, token.NoPos, f, []value{itf.v}, nil, false)
						out = append(out, strBytes(r)...)
						continue
					}
				}
				pad := 0
				if spec != "" {
					if spec[0] == '0' {
						p, err := strconv.Atoi(spec[1:])
						if err == nil {
							pad = p
						}
					}
					if pad == 0 {
						panic(unsupported{"symbolic Sprintf with format spec " + spec})
					}
				}
				out = append(out, in.symFormatInt(v, w, signed, pad)...)
				continue
			}
		default:
			// a value with String() whose fields are symbolic
			if verb == 's' || verb == 'v' {
				if f := in.lookupMethodByName(itf.t, "String"); f != nil {
					r := in.callSSA(nil, token.NoPos, f, []value{itf.v}, nil, false)
					out = append(out, strBytes(r)...)
					continue
				}
				if f := in.lookupMethodByName(itf.t, "Error"); f != nil {
					r := in.callSSA(nil, token.NoPos, f, []value{itf.v}, nil, false)
					out = append(out, strBytes(r)...)
					continue
				}
			}
		}
		in.stats.opaqueFormats++
		out = append(out, strBytes("<sym>")...)
	}
	return mkStr(out)
}

// symFormatInt renders a symbolic integer in decimal. The number of digits is
// a decision; digits are terms (udiv/urem by constants).
func (in *Interp) symFormatInt(t *Term, w int, signed bool, pad int) []value {
	var out []value
	v64 := t
	if signed {
		v64 = mkSext(t, 64)
		if in.branch(mkCmp("bvslt", v64, mkBV(0, 64))) {
			out = append(out, uint64('-'))
			v64 = mkBVNeg(v64)
		}
	} else {
		v64 = mkZext(t, 64)
	}
	// number of digits: decision over 1..20
	maxDigits := 20
	nd := 1 + in.choose(maxDigits, func(i int) *Term {
		// i+1 digits: 10^i <= v < 10^(i+1) (with i=0: v<10)
		var lo, hi *Term
		if i == 0 {
			lo = tTrue
		} else {
			lo = mkCmp("bvule", mkBV(pow10u(i), 64), v64)
		}
		if i+1 >= 20 {
			hi = tTrue
		} else {
			hi = mkCmp("bvult", v64, mkBV(pow10u(i+1), 64))
		}
		return mkAnd(lo, hi)
	})
	for nd < pad {
		out = append(out, uint64('0'))
		pad--
	}
	// The digits are fresh byte variables constrained to '0'..'9' (no leading
	// zero), not udiv/urem terms: what the code under test does with the text
	// (searching for separators, slicing) then needs no arithmetic, and
	// parsing the very same digits back (symParseUint) returns v by
	// provenance — strconv's print/parse round trip is trusted (and compared
	// with native execution in concrete mode), not re-proved.  The digits are
	// an over-approximation of the real text; a counterexample that depended
	// on them would not replay natively.
	digits := make([]value, nd)
	rec := &decimalRec{v: v64}
	in.decCtr++
	for i := 0; i < nd; i++ {
		b := mkVar(fmt.Sprintf("dec.%d.%d", in.decCtr, i), bvSort(8))
		lo := uint64('0')
		if i == 0 && nd > 1 {
			lo = '1'
		}
		in.addPC(mkCmp("bvule", mkBV(lo, 8), b))
		in.addPC(mkCmp("bvule", b, mkBV('9', 8)))
		digits[i] = b
		rec.digits = append(rec.digits, b)
	}
	if in.decimals == nil {
		in.decimals = map[*Term]*decimalRec{}
	}
	in.decimals[rec.digits[0]] = rec
	return append(out, digits...)
}

type decimalRec struct {
	digits []*Term
	v      *Term // 64-bit value the digits print
}

func pow10u(n int) uint64 {
	r := uint64(1)
	for i := 0; i < n; i++ {
		r *= 10
	}
	return r
}

// symParseUint parses a decimal SymStr into a 64-bit term; ok is the term for
// "all digits and no overflow".
func (in *Interp) symParseUint(s value, bitSize int) (*Term, *Term) {
	n := strLen(s)
	val := mkBV(0, 64)
	ok := tTrue
	if n == 0 {
		return val, tFalse
	}
	if n > 20+20 {
		return val, tFalse
	}
	// digits that were produced by symFormatInt parse back to the value printed
	{
		k := 0
		for k < n-1 {
			if u, isC := strByte(s, k).(uint64); isC && u == '0' {
				k++
				continue
			}
			break
		}
		if first, isT := strByte(s, k).(*Term); isT {
			if rec := in.decimals[first]; rec != nil && len(rec.digits) == n-k {
				same := true
				for i, d := range rec.digits {
					if strByte(s, k+i) != value(d) {
						same = false
					}
				}
				if same {
					okr := tTrue
					if bitSize < 64 && bitSize > 0 {
						okr = mkCmp("bvule", rec.v, mkBV(maskW(bitSize), 64))
					}
					return rec.v, okr
				}
			}
		}
	}
	if n > 20 {
		return val, tFalse
	}
	for i := 0; i < n; i++ {
		b := toTerm(strByte(s, i), 8)
		isDigit := mkAnd(mkCmp("bvule", mkBV('0', 8), b), mkCmp("bvule", b, mkBV('9', 8)))
		ok = mkAnd(ok, isDigit)
		d := mkZext(mkBin("bvsub", b, mkBV('0', 8)), 64)
		if i >= 19 {
			// overflow check on the 20th digit: val <= (max-d)/10
			lim := mkBin("bvudiv", mkBin("bvsub", mkBV(^uint64(0), 64), d), mkBV(10, 64))
			ok = mkAnd(ok, mkCmp("bvule", val, lim))
		}
		val = mkBin("bvadd", mkBin("bvmul", val, mkBV(10, 64)), d)
	}
	if bitSize < 64 && bitSize > 0 {
		ok = mkAnd(ok, mkCmp("bvule", val, mkBV(maskW(bitSize), 64)))
	}
	return val, ok
}

func (in *Interp) numError(fnName, s string, what string) value {
	// *strconv.NumError{Func, Num, Err}
	pkg := in.prog.ImportedPackage("strconv")
	if pkg == nil {
		return in.mkError("strconv." + fnName + ": parsing " + strconv.Quote(s) + ": " + what)
	}
	in.ensureInit(pkg)
	t := pkg.Type("NumError").Type()
	var errv value
	switch what {
	case "invalid syntax":
		errv = in.load(in.globalAddr(pkg.Var("ErrSyntax")), nil)
	default:
		errv = in.load(in.globalAddr(pkg.Var("ErrRange")), nil)
	}
	var st value = structure{fnName, s, errv}
	return iface{t: types.NewPointer(t), v: &st}
}

func init() {
	for _, n := range []string{
		"(*sync.Mutex).Lock", "(*sync.Mutex).Unlock", "(*sync.RWMutex).Lock", "(*sync.RWMutex).Unlock",
		"(*sync.RWMutex).RLock", "(*sync.RWMutex).RUnlock",
		"log.Printf", "log.Println", "log.Print",
		"runtime.GC", "runtime.Gosched", "runtime.KeepAlive", "runtime.SetFinalizer",
		"(*sync.Pool).Put",
	} {
		intrinsics[n] = noop
	}
	// concurrent mode: mutexes and wait groups have their blocking semantics
	// (sequential mode: a single goroutine never contends)
	lock := func(in *Interp, c *frame, fn *ssa.Function, a []value) (value, bool) {
		if !in.cfg.concurrent {
			return nil, true
		}
		p := a[0].(*value)
		in.schedPoint()
		in.block("mutex lock", func() bool { return in.syncState[p] == 0 })
		in.syncState[p] = 1
		return nil, true
	}
	unlock := func(in *Interp, c *frame, fn *ssa.Function, a []value) (value, bool) {
		if !in.cfg.concurrent {
			return nil, true
		}
		in.syncState[a[0].(*value)] = 0
		return nil, true
	}
	intrinsics["(*sync.Mutex).Lock"] = lock
	intrinsics["(*sync.Mutex).Unlock"] = unlock
	intrinsics["(*sync.RWMutex).Lock"] = lock
	intrinsics["(*sync.RWMutex).Unlock"] = unlock
	intrinsics["(*sync.RWMutex).RLock"] = lock // readers exclude each other too: fewer schedules, no extra behaviours for race-free code
	intrinsics["(*sync.RWMutex).RUnlock"] = unlock
	intrinsics["(*sync.WaitGroup).Add"] = func(in *Interp, c *frame, fn *ssa.Function, a []value) (value, bool) {
		p := a[0].(*value)
		d := sext(a[1].(uint64), 64)
		in.syncState[p] += d
		if in.syncState[p] < 0 {
			panic(rtPanic("sync: negative WaitGroup counter"))
		}
		return nil, true
	}
	intrinsics["(*sync.WaitGroup).Done"] = func(in *Interp, c *frame, fn *ssa.Function, a []value) (value, bool) {
		p := a[0].(*value)
		in.syncState[p]--
		if in.syncState[p] < 0 {
			panic(rtPanic("sync: negative WaitGroup counter"))
		}
		in.schedPoint()
		return nil, true
	}
	intrinsics["(*sync.WaitGroup).Wait"] = func(in *Interp, c *frame, fn *ssa.Function, a []value) (value, bool) {
		p := a[0].(*value)
		in.schedPoint()
		in.block("WaitGroup.Wait", func() bool { return in.syncState[p] == 0 })
		return nil, true
	}
	intrinsics["(*sync.Mutex).TryLock"] = func(in *Interp, c *frame, fn *ssa.Function, a []value) (value, bool) { return true, true }
	intrinsics["(*sync.Pool).Get"] = func(in *Interp, c *frame, fn *ssa.Function, a []value) (value, bool) {
		// call New if set, else nil
		p := a[0].(*value)
		s := (*p).(structure)
		st := deref(fn.Signature.Recv().Type()).Underlying().(*types.Struct)
		for i := 0; i < st.NumFields(); i++ {
			if st.Field(i).Name() == "New" {
				if f := s[i]; f != nil {
					switch f := f.(type) {
					case *ssa.Function:
						if f != nil {
							return in.call(c, token.NoPos, f, nil), true
						}
					case *closure:
						if f != nil {
							return in.call(c, token.NoPos, f, nil), true
						}
					}
				}
			}
		}
		return iface{}, true
	}
	intrinsics["log.Fatalf"] = func(in *Interp, c *frame, fn *ssa.Function, a []value) (value, bool) {
		panic(targetPanic{iface{t: rtErrorType, v: "log.Fatalf: " + toString(a[0])}})
	}
	intrinsics["log.Fatal"] = intrinsics["log.Fatalf"]
	intrinsics["log.Panicf"] = intrinsics["log.Fatalf"]
	intrinsics["runtime.NumCPU"] = func(in *Interp, c *frame, fn *ssa.Function, a []value) (value, bool) {
		return uint64(in.cfg.numCPU), true
	}
	intrinsics["runtime.GOMAXPROCS"] = func(in *Interp, c *frame, fn *ssa.Function, a []value) (value, bool) {
		return uint64(in.cfg.numCPU), true
	}

	// sync/atomic on boxed cells (sequentially consistent in the engine)
	for _, ty := range []string{"Int32", "Int64", "Uint32", "Uint64", "Uintptr", "Pointer"} {
		ty := ty
		intrinsics["sync/atomic.Load"+ty] = func(in *Interp, c *frame, fn *ssa.Function, a []value) (value, bool) {
			in.schedPoint()
			return in.load(a[0], nil), true
		}
		intrinsics["sync/atomic.Store"+ty] = func(in *Interp, c *frame, fn *ssa.Function, a []value) (value, bool) {
			in.schedPoint()
			in.store(a[0], a[1])
			return nil, true
		}
		intrinsics["sync/atomic.Add"+ty] = func(in *Interp, c *frame, fn *ssa.Function, a []value) (value, bool) {
			in.schedPoint()
			t := fn.Signature.Params().At(1).Type()
			nv := in.binop(token.ADD, t, t, in.load(a[0], nil), a[1])
			in.store(a[0], nv)
			return nv, true
		}
		intrinsics["sync/atomic.Swap"+ty] = func(in *Interp, c *frame, fn *ssa.Function, a []value) (value, bool) {
			in.schedPoint()
			old := in.load(a[0], nil)
			in.store(a[0], a[1])
			return old, true
		}
		intrinsics["sync/atomic.CompareAndSwap"+ty] = func(in *Interp, c *frame, fn *ssa.Function, a []value) (value, bool) {
			in.schedPoint()
			t := fn.Signature.Params().At(1).Type()
			cur := in.load(a[0], nil)
			if in.truth(in.equals(t, cur, a[1])) {
				in.store(a[0], a[2])
				return true, true
			}
			return false, true
		}
	}

	// math/bits
	bitsUn := func(name string, w int, f func(x uint64) uint64, sym func(t *Term) *Term) {
		intrinsics[name] = func(in *Interp, c *frame, fn *ssa.Function, a []value) (value, bool) {
			switch x := a[0].(type) {
			case uint64:
				return f(x), true
			case *Term:
				return fromTerm(sym(x)), true
			}
			return nil, false
		}
	}
	lenLadder := func(w int) func(t *Term) *Term {
		return func(t *Term) *Term {
			// Len: position of highest set bit + 1
			res := mkBV(0, 64)
			for i := 0; i < w; i++ {
				bit := mkEq(mkExtract(i, i, t), mkBV(1, 1))
				res = mkIte(bit, mkBV(uint64(i+1), 64), res)
			}
			return res
		}
	}
	tzLadder := func(w int) func(t *Term) *Term {
		return func(t *Term) *Term {
			res := mkBV(uint64(w), 64)
			for i := w - 1; i >= 0; i-- {
				bit := mkEq(mkExtract(i, i, t), mkBV(1, 1))
				res = mkIte(bit, mkBV(uint64(i), 64), res)
			}
			return res
		}
	}
	lzLadder := func(w int) func(t *Term) *Term {
		return func(t *Term) *Term {
			return mkBin("bvsub", mkBV(uint64(w), 64), lenLadder(w)(t))
		}
	}
	popLadder := func(w int) func(t *Term) *Term {
		return func(t *Term) *Term {
			res := mkBV(0, 64)
			for i := 0; i < w; i++ {
				res = mkBin("bvadd", res, mkZext(mkExtract(i, i, t), 64))
			}
			return res
		}
	}
	bitsUn("math/bits.Len64", 64, func(x uint64) uint64 { return uint64(bits.Len64(x)) }, lenLadder(64))
	bitsUn("math/bits.Len", 64, func(x uint64) uint64 { return uint64(bits.Len64(x)) }, lenLadder(64))
	bitsUn("math/bits.Len32", 32, func(x uint64) uint64 { return uint64(bits.Len32(uint32(x))) }, lenLadder(32))
	bitsUn("math/bits.Len16", 16, func(x uint64) uint64 { return uint64(bits.Len16(uint16(x))) }, lenLadder(16))
	bitsUn("math/bits.Len8", 8, func(x uint64) uint64 { return uint64(bits.Len8(uint8(x))) }, lenLadder(8))
	bitsUn("math/bits.TrailingZeros64", 64, func(x uint64) uint64 { return uint64(bits.TrailingZeros64(x)) }, tzLadder(64))
	bitsUn("math/bits.TrailingZeros", 64, func(x uint64) uint64 { return uint64(bits.TrailingZeros64(x)) }, tzLadder(64))
	bitsUn("math/bits.TrailingZeros32", 32, func(x uint64) uint64 { return uint64(bits.TrailingZeros32(uint32(x))) }, tzLadder(32))
	bitsUn("math/bits.LeadingZeros64", 64, func(x uint64) uint64 { return uint64(bits.LeadingZeros64(x)) }, lzLadder(64))
	bitsUn("math/bits.LeadingZeros32", 32, func(x uint64) uint64 { return uint64(bits.LeadingZeros32(uint32(x))) }, lzLadder(32))
	bitsUn("math/bits.OnesCount64", 64, func(x uint64) uint64 { return uint64(bits.OnesCount64(x)) }, popLadder(64))
	bitsUn("math/bits.OnesCount", 64, func(x uint64) uint64 { return uint64(bits.OnesCount64(x)) }, popLadder(64))

	// fmt
	intrinsics["fmt.Sprintf"] = func(in *Interp, c *frame, fn *ssa.Function, a []value) (value, bool) {
		f, ok := a[0].(string)
		if !ok {
			panic(unsupported{"fmt.Sprintf with symbolic format"})
		}
		return in.sprintf(f, a[1].([]value)), true
	}
	intrinsics["fmt.Errorf"] = func(in *Interp, c *frame, fn *ssa.Function, a []value) (value, bool) {
		f, ok := a[0].(string)
		if !ok {
			panic(unsupported{"fmt.Errorf with symbolic format"})
		}
		f = strings.ReplaceAll(f, "%w", "%v")
		msg := in.sprintf(f, a[1].([]value))
		if s, ok := msg.(string); ok {
			return in.mkError(s), true
		}
		return in.mkErrorV(msg), true
	}
	intrinsics["fmt.Sprint"] = func(in *Interp, c *frame, fn *ssa.Function, a []value) (value, bool) {
		args := a[0].([]value)
		f := strings.Repeat("%v", len(args))
		return in.sprintf(f, args), true
	}
	intrinsics["fmt.Sprintln"] = func(in *Interp, c *frame, fn *ssa.Function, a []value) (value, bool) {
		args := a[0].([]value)
		f := strings.TrimSuffix(strings.Repeat("%v ", len(args)), " ") + "\n"
		return in.sprintf(f, args), true
	}
	for _, n := range []string{"fmt.Printf", "fmt.Println", "fmt.Print", "fmt.Fprintf", "fmt.Fprintln", "fmt.Fprint"} {
		intrinsics[n] = func(in *Interp, c *frame, fn *ssa.Function, a []value) (value, bool) {
			return tuple{uint64(0), iface{}}, true
		}
	}

	// strconv on symbolic input
	intrinsics["strconv.ParseUint"] = func(in *Interp, c *frame, fn *ssa.Function, a []value) (value, bool) {
		if allConcrete(a) {
			return nil, false
		}
		base, _ := a[1].(uint64)
		bs, _ := a[2].(uint64)
		if base != 10 {
			panic(unsupported{"symbolic ParseUint with base != 10"})
		}
		v, ok := in.symParseUint(a[0], int(bs))
		if in.branch(ok) {
			return tuple{fromTerm(v), iface{}}, true
		}
		return tuple{uint64(0), in.mkError("strconv.ParseUint: parsing <symbolic>: invalid")}, true
	}
	symParseInt := func(in *Interp, s value, bitSize int, fname string) value {
		n := strLen(s)
		if n == 0 {
			return tuple{uint64(0), in.mkError("strconv." + fname + ": parsing \"\": invalid syntax")}
		}
		if bitSize == 0 {
			bitSize = 64
		}
		neg := tFalse
		first := toTerm(strByte(s, 0), 8)
		body := s
		isSign := mkOr(mkEq(first, mkBV('-', 8)), mkEq(first, mkBV('+', 8)))
		if in.branch(isSign) {
			neg = mkEq(first, mkBV('-', 8))
			body = strSlice(s, 1, n)
		}
		v, ok := in.symParseUint(body, 0)
		// range: v <= 2^(bitSize-1)-1 (or 2^(bitSize-1) when negative)
		top := uint64(1) << uint(bitSize-1)
		lim := mkIte(neg, mkBV(top, 64), mkBV(top-1, 64))
		ok = mkAnd(ok, mkCmp("bvule", v, lim))
		if in.branch(ok) {
			return tuple{fromTerm(mkIte(neg, mkBVNeg(v), v)), iface{}}
		}
		return tuple{uint64(0), in.mkError("strconv." + fname + ": parsing <symbolic>: invalid")}
	}
	intrinsics["strconv.Atoi"] = func(in *Interp, c *frame, fn *ssa.Function, a []value) (value, bool) {
		if allConcrete(a) {
			return nil, false
		}
		return symParseInt(in, a[0], 0, "Atoi"), true
	}
	intrinsics["strconv.ParseInt"] = func(in *Interp, c *frame, fn *ssa.Function, a []value) (value, bool) {
		if allConcrete(a) {
			return nil, false
		}
		base, _ := a[1].(uint64)
		bs, _ := a[2].(uint64)
		if base != 10 {
			panic(unsupported{"symbolic ParseInt with base != 10"})
		}
		return symParseInt(in, a[0], int(bs), "ParseInt"), true
	}
	intrinsics["strconv.FormatUint"] = func(in *Interp, c *frame, fn *ssa.Function, a []value) (value, bool) {
		if allConcrete(a) {
			return nil, false
		}
		if b, _ := a[1].(uint64); b != 10 {
			panic(unsupported{"symbolic FormatUint with base != 10"})
		}
		return mkStr(in.symFormatInt(a[0].(*Term), 64, false, 0)), true
	}
	intrinsics["strconv.FormatInt"] = func(in *Interp, c *frame, fn *ssa.Function, a []value) (value, bool) {
		if allConcrete(a) {
			return nil, false
		}
		if b, _ := a[1].(uint64); b != 10 {
			panic(unsupported{"symbolic FormatInt with base != 10"})
		}
		return mkStr(in.symFormatInt(a[0].(*Term), 64, true, 0)), true
	}
	intrinsics["strconv.Itoa"] = func(in *Interp, c *frame, fn *ssa.Function, a []value) (value, bool) {
		if allConcrete(a) {
			return nil, false
		}
		return mkStr(in.symFormatInt(a[0].(*Term), 64, true, 0)), true
	}

	// strings on symbolic input
	intrinsics["strings.HasPrefix"] = func(in *Interp, c *frame, fn *ssa.Function, a []value) (value, bool) {
		if allConcrete(a) {
			return nil, false
		}
		if strLen(a[0]) < strLen(a[1]) {
			return false, true
		}
		return fromTerm(strEqTerm(strSlice(a[0], 0, strLen(a[1])), a[1])), true
	}
	intrinsics["strings.HasSuffix"] = func(in *Interp, c *frame, fn *ssa.Function, a []value) (value, bool) {
		if allConcrete(a) {
			return nil, false
		}
		n, m := strLen(a[0]), strLen(a[1])
		if n < m {
			return false, true
		}
		return fromTerm(strEqTerm(strSlice(a[0], n-m, n), a[1])), true
	}
	symIndex := func(in *Interp, s, sep value, last bool) value {
		n, m := strLen(s), strLen(sep)
		if m > n {
			return uint64(^uint64(0))
		}
		// position is a decision: first (or last) i with s[i:i+m]==sep
		order := make([]int, 0, n-m+1)
		for i := 0; i+m <= n; i++ {
			order = append(order, i)
		}
		if last {
			for i, j := 0, len(order)-1; i < j; i, j = i+1, j-1 {
				order[i], order[j] = order[j], order[i]
			}
		}
		for _, i := range order {
			if in.truth(fromTerm(strEqTerm(strSlice(s, i, i+m), sep))) {
				return uint64(i)
			}
		}
		return uint64(^uint64(0))
	}
	intrinsics["strings.Index"] = func(in *Interp, c *frame, fn *ssa.Function, a []value) (value, bool) {
		if allConcrete(a) {
			return nil, false
		}
		return symIndex(in, a[0], a[1], false), true
	}
	intrinsics["strings.LastIndex"] = func(in *Interp, c *frame, fn *ssa.Function, a []value) (value, bool) {
		if allConcrete(a) {
			return nil, false
		}
		return symIndex(in, a[0], a[1], true), true
	}
	intrinsics["strings.IndexByte"] = func(in *Interp, c *frame, fn *ssa.Function, a []value) (value, bool) {
		if allConcrete(a) {
			return nil, false
		}
		return symIndex(in, a[0], mkStr([]value{a[1]}), false), true
	}
	intrinsics["strings.Contains"] = func(in *Interp, c *frame, fn *ssa.Function, a []value) (value, bool) {
		if allConcrete(a) {
			return nil, false
		}
		r := symIndex(in, a[0], a[1], false).(uint64)
		return r != ^uint64(0), true
	}
	intrinsics["strings.ToUpper"] = func(in *Interp, c *frame, fn *ssa.Function, a []value) (value, bool) {
		if allConcrete(a) {
			return nil, false
		}
		bs := strBytes(a[0])
		for i, b := range bs {
			t, ok := b.(*Term)
			if !ok {
				if u := b.(uint64); u >= 'a' && u <= 'z' {
					bs[i] = u - 32
				} else if u >= 0x80 {
					panic(unsupported{"ToUpper on non-ASCII"})
				}
				continue
			}
			if !in.branch(mkCmp("bvult", t, mkBV(0x80, 8))) {
				panic(unsupported{"ToUpper on symbolic non-ASCII byte"})
			}
			lower := mkAnd(mkCmp("bvule", mkBV('a', 8), t), mkCmp("bvule", t, mkBV('z', 8)))
			bs[i] = fromTerm(mkIte(lower, mkBin("bvsub", t, mkBV(32, 8)), t))
		}
		return mkStr(bs), true
	}
	intrinsics["strings.ToLower"] = func(in *Interp, c *frame, fn *ssa.Function, a []value) (value, bool) {
		if allConcrete(a) {
			return nil, false
		}
		bs := strBytes(a[0])
		for i, b := range bs {
			t, ok := b.(*Term)
			if !ok {
				if u := b.(uint64); u >= 'A' && u <= 'Z' {
					bs[i] = u + 32
				} else if u >= 0x80 {
					panic(unsupported{"ToLower on non-ASCII"})
				}
				continue
			}
			if !in.branch(mkCmp("bvult", t, mkBV(0x80, 8))) {
				panic(unsupported{"ToLower on symbolic non-ASCII byte"})
			}
			upper := mkAnd(mkCmp("bvule", mkBV('A', 8), t), mkCmp("bvule", t, mkBV('Z', 8)))
			bs[i] = fromTerm(mkIte(upper, mkBin("bvadd", t, mkBV(32, 8)), t))
		}
		return mkStr(bs), true
	}
	intrinsics["strings.Split"] = func(in *Interp, c *frame, fn *ssa.Function, a []value) (value, bool) {
		if allConcrete(a) {
			return nil, false
		}
		s, sep := a[0], a[1]
		m := strLen(sep)
		if m == 0 {
			panic(unsupported{"symbolic strings.Split with empty separator"})
		}
		var parts []value
		start := 0
		i := 0
		for i+m <= strLen(s) {
			if in.truth(fromTerm(strEqTerm(strSlice(s, i, i+m), sep))) {
				parts = append(parts, strSlice(s, start, i))
				i += m
				start = i
			} else {
				i++
			}
		}
		parts = append(parts, strSlice(s, start, strLen(s)))
		return parts, true
	}
	intrinsics["strings.Join"] = func(in *Interp, c *frame, fn *ssa.Function, a []value) (value, bool) {
		if allConcrete(a) {
			ok := true
			for _, e := range a[0].([]value) {
				if _, isS := e.(string); !isS {
					ok = false
				}
			}
			if ok {
				return nil, false
			}
		}
		var out []value
		for i, e := range a[0].([]value) {
			if i > 0 {
				out = append(out, strBytes(a[1])...)
			}
			out = append(out, strBytes(e)...)
		}
		return mkStr(out), true
	}
	symReplace := func(in *Interp, c *frame, fn *ssa.Function, a []value) (value, bool) {
		if allConcrete(a) {
			return nil, false
		}
		s, old, nw := a[0], a[1], a[2]
		if _, ok := old.(string); !ok || strLen(old) == 0 {
			panic(unsupported{"symbolic strings.Replace with symbolic or empty pattern"})
		}
		m := strLen(old)
		var out []value
		i := 0
		for i < strLen(s) {
			if i+m <= strLen(s) && in.truth(fromTerm(strEqTerm(strSlice(s, i, i+m), old))) {
				out = append(out, strBytes(nw)...)
				i += m
			} else {
				out = append(out, strByte(s, i))
				i++
			}
		}
		return mkStr(out), true
	}
	intrinsics["strings.Replace"] = func(in *Interp, c *frame, fn *ssa.Function, a []value) (value, bool) {
		if n, ok := a[3].(uint64); ok && int64(n) >= 0 && !allConcrete(a) {
			panic(unsupported{"symbolic strings.Replace with n >= 0"})
		}
		return symReplace(in, c, fn, a[:3])
	}
	intrinsics["strings.ReplaceAll"] = symReplace
	intrinsics["strings.TrimSpace"] = func(in *Interp, c *frame, fn *ssa.Function, a []value) (value, bool) {
		if allConcrete(a) {
			return nil, false
		}
		panic(unsupported{"symbolic strings.TrimSpace"})
	}
	intrinsics["strings.Compare"] = func(in *Interp, c *frame, fn *ssa.Function, a []value) (value, bool) {
		if allConcrete(a) {
			return nil, false
		}
		if in.truth(fromTerm(strEqTerm(a[0], a[1]))) {
			return uint64(0), true
		}
		if in.truth(fromTerm(strLess(a[0], a[1], false))) {
			return ^uint64(0), true
		}
		return uint64(1), true
	}
	intrinsics["bytes.Equal"] = func(in *Interp, c *frame, fn *ssa.Function, a []value) (value, bool) {
		x, y := a[0].([]value), a[1].([]value)
		return fromTerm(strEqTerm(mkStr(x), mkStr(y))), true
	}
	intrinsics["internal/bytealg.Equal"] = intrinsics["bytes.Equal"]
	intrinsics["bytes.Compare"] = func(in *Interp, c *frame, fn *ssa.Function, a []value) (value, bool) {
		x, y := mkStr(a[0].([]value)), mkStr(a[1].([]value))
		if in.truth(fromTerm(strEqTerm(x, y))) {
			return uint64(0), true
		}
		if in.truth(fromTerm(strLess(x, y, false))) {
			return ^uint64(0), true
		}
		return uint64(1), true
	}
	intrinsics["internal/bytealg.IndexByteString"] = func(in *Interp, c *frame, fn *ssa.Function, a []value) (value, bool) {
		if allConcrete(a) {
			return uint64(int64(strings.IndexByte(a[0].(string), byte(a[1].(uint64))))), true
		}
		return symIndex(in, a[0], mkStr([]value{a[1]}), false), true
	}
	intrinsics["internal/bytealg.IndexByte"] = func(in *Interp, c *frame, fn *ssa.Function, a []value) (value, bool) {
		return symIndex(in, mkStr(a[0].([]value)), mkStr([]value{a[1]}), false), true
	}
	intrinsics["internal/bytealg.CountString"] = func(in *Interp, c *frame, fn *ssa.Function, a []value) (value, bool) {
		if allConcrete(a) {
			return uint64(strings.Count(a[0].(string), string([]byte{byte(a[1].(uint64))}))), true
		}
		return nil, false
	}
	intrinsics["internal/bytealg.IndexString"] = func(in *Interp, c *frame, fn *ssa.Function, a []value) (value, bool) {
		if allConcrete(a) {
			return uint64(int64(strings.Index(a[0].(string), a[1].(string)))), true
		}
		return symIndex(in, a[0], a[1], false), true
	}
	intrinsics["internal/stringslite.Index"] = intrinsics["internal/bytealg.IndexString"]
	intrinsics["internal/bytealg.MakeNoZero"] = func(in *Interp, c *frame, fn *ssa.Function, a []value) (value, bool) {
		n := int(a[0].(uint64))
		s := make([]value, n)
		for i := range s {
			s[i] = uint64(0)
		}
		return s, true
	}

	// sort.Slice and friends: insertion sort calling the interpreted less.
	sortSlice := func(in *Interp, c *frame, fn *ssa.Function, a []value) (value, bool) {
		itf := a[0].(iface)
		s, ok := itf.v.([]value)
		if !ok {
			panic(unsupported{"sort.Slice on non-slice"})
		}
		less := a[1]
		for i := 1; i < len(s); i++ {
			for j := i; j > 0; j-- {
				r := in.call(c, token.NoPos, less, []value{uint64(j), uint64(j - 1)})
				if !in.truth(r) {
					break
				}
				s[j], s[j-1] = s[j-1], s[j]
			}
		}
		return nil, true
	}
	intrinsics["sort.Slice"] = sortSlice
	intrinsics["sort.SliceStable"] = sortSlice
	intrinsics["sort.SliceIsSorted"] = func(in *Interp, c *frame, fn *ssa.Function, a []value) (value, bool) {
		s := a[0].(iface).v.([]value)
		for i := len(s) - 1; i > 0; i-- {
			if in.truth(in.call(c, token.NoPos, a[1], []value{uint64(i), uint64(i - 1)})) {
				return false, true
			}
		}
		return true, true
	}

	// math on concrete floats
	m1 := map[string]func(float64) float64{
		"math.Sqrt": math.Sqrt, "math.Sin": math.Sin, "math.Cos": math.Cos, "math.Tan": math.Tan,
		"math.Asin": math.Asin, "math.Acos": math.Acos, "math.Atan": math.Atan, "math.Floor": math.Floor,
		"math.Ceil": math.Ceil, "math.Log": math.Log, "math.Log2": math.Log2, "math.Log10": math.Log10, "math.Exp": math.Exp,
		"math.Abs": math.Abs, "math.Trunc": math.Trunc, "math.Round": math.Round, "math.Sinh": math.Sinh, "math.Cosh": math.Cosh,
		"math.Tanh": math.Tanh, "math.Log1p": math.Log1p, "math.Expm1": math.Expm1, "math.RoundToEven": math.RoundToEven, "math.Cbrt": math.Cbrt,
		"math.Asinh": math.Asinh, "math.Atanh": math.Atanh, "math.Acosh": math.Acosh, "math.Exp2": math.Exp2,
	}
	for n, f := range m1 {
		f := f
		intrinsics[n] = func(in *Interp, c *frame, fn *ssa.Function, a []value) (value, bool) {
			x, ok := a[0].(float64)
			if !ok {
				panic(unsupported{fn.String() + " on symbolic float"})
			}
			return f(x), true
		}
	}
	m2 := map[string]func(float64, float64) float64{
		"math.Atan2": math.Atan2, "math.Pow": math.Pow, "math.Mod": math.Mod, "math.Max": math.Max, "math.Min": math.Min,
		"math.Hypot": math.Hypot, "math.Remainder": math.Remainder, "math.Copysign": math.Copysign, "math.Dim": math.Dim, "math.Nextafter": math.Nextafter,
	}
	for n, f := range m2 {
		f := f
		intrinsics[n] = func(in *Interp, c *frame, fn *ssa.Function, a []value) (value, bool) {
			x, ok := a[0].(float64)
			y, ok2 := a[1].(float64)
			if !ok || !ok2 {
				panic(unsupported{fn.String() + " on symbolic float"})
			}
			return f(x, y), true
		}
	}
	intrinsics["math.Float64bits"] = func(in *Interp, c *frame, fn *ssa.Function, a []value) (value, bool) {
		x, ok := a[0].(float64)
		if !ok {
			panic(unsupported{"Float64bits on symbolic float"})
		}
		return math.Float64bits(x), true
	}
	intrinsics["math.Float64frombits"] = func(in *Interp, c *frame, fn *ssa.Function, a []value) (value, bool) {
		x, ok := a[0].(uint64)
		if !ok {
			panic(unsupported{"Float64frombits on symbolic"})
		}
		return math.Float64frombits(x), true
	}
	intrinsics["math.Float32bits"] = func(in *Interp, c *frame, fn *ssa.Function, a []value) (value, bool) {
		x, ok := a[0].(float64)
		if !ok {
			panic(unsupported{"Float32bits on symbolic float"})
		}
		return uint64(math.Float32bits(float32(x))), true
	}
	intrinsics["math.Float32frombits"] = func(in *Interp, c *frame, fn *ssa.Function, a []value) (value, bool) {
		x, ok := a[0].(uint64)
		if !ok {
			panic(unsupported{"Float32frombits on symbolic"})
		}
		return float64(math.Float32frombits(uint32(x))), true
	}
	intrinsics["math.IsNaN"] = func(in *Interp, c *frame, fn *ssa.Function, a []value) (value, bool) {
		if x, ok := a[0].(float64); ok {
			return math.IsNaN(x), true
		}
		return false, true // ordered atoms are never NaN (stated assumption)
	}
	intrinsics["math.IsInf"] = func(in *Interp, c *frame, fn *ssa.Function, a []value) (value, bool) {
		if x, ok := a[0].(float64); ok {
			return math.IsInf(x, int(int64(a[1].(uint64)))), true
		}
		return false, true
	}
	intrinsics["math.Inf"] = func(in *Interp, c *frame, fn *ssa.Function, a []value) (value, bool) {
		return math.Inf(int(int64(a[0].(uint64)))), true
	}
	intrinsics["math.NaN"] = func(in *Interp, c *frame, fn *ssa.Function, a []value) (value, bool) { return math.NaN(), true }
	intrinsics["math.Signbit"] = func(in *Interp, c *frame, fn *ssa.Function, a []value) (value, bool) {
		return math.Signbit(a[0].(float64)), true
	}
	intrinsics["math.Modf"] = func(in *Interp, c *frame, fn *ssa.Function, a []value) (value, bool) {
		i, f := math.Modf(a[0].(float64))
		return tuple{i, f}, true
	}
	intrinsics["math.Frexp"] = func(in *Interp, c *frame, fn *ssa.Function, a []value) (value, bool) {
		f, e := math.Frexp(a[0].(float64))
		return tuple{f, uint64(int64(e))}, true
	}
	intrinsics["math.Ldexp"] = func(in *Interp, c *frame, fn *ssa.Function, a []value) (value, bool) {
		return math.Ldexp(a[0].(float64), int(int64(a[1].(uint64)))), true
	}
	intrinsics["math.Sincos"] = func(in *Interp, c *frame, fn *ssa.Function, a []value) (value, bool) {
		s, co := math.Sincos(a[0].(float64))
		return tuple{s, co}, true
	}
	intrinsics["math.FMA"] = func(in *Interp, c *frame, fn *ssa.Function, a []value) (value, bool) {
		return math.FMA(a[0].(float64), a[1].(float64), a[2].(float64)), true
	}

	// (s1.Angle).E7 on Angle(i)*s1.E7 with symbolic i: see floatint.go
	intrinsics["(github.com/golang/geo/s1.Angle).E7"] = func(in *Interp, c *frame, fn *ssa.Function, a []value) (value, bool) {
		f, ok := a[0].(intFloat)
		if !ok {
			return nil, false
		}
		e7 := math.Pi / 180 / 1e7 // == float64(s1.E7)
		if f.chain != "*"+fmtFloatBits(1e-7*(math.Pi/180)) && f.chain != "*"+fmtFloatBits(e7) {
			panic(unsupported{"Angle.E7 on a symbolic float that is not Angle(int)*s1.E7"})
		}
		in.stats.stubsUsed["(s1.Angle).E7 inverts Angle(int32)*s1.E7 exactly"]++
		return fromTerm(mkExtract(31, 0, f.t)), true
	}
	// protobuf scalar helpers: proto.String(v) etc. return a pointer to a copy
	for _, n := range []string{"String", "Bool", "Int32", "Int64", "Uint32", "Uint64", "Float32", "Float64"} {
		intrinsics["google.golang.org/protobuf/proto."+n] = func(in *Interp, c *frame, fn *ssa.Function, a []value) (value, bool) {
			cell := new(value)
			*cell = a[0]
			return cell, true
		}
	}
	// context.Background/TODO: an opaque context value (nil interface); code that
	// only passes it along works, code that calls methods on it ends the path
	for _, n := range []string{"context.Background", "context.TODO"} {
		intrinsics[n] = func(in *Interp, c *frame, fn *ssa.Function, a []value) (value, bool) {
			return iface{}, true
		}
	}
	intrinsics["time.Now"] = func(in *Interp, c *frame, fn *ssa.Function, a []value) (value, bool) {
		return zero(fn.Signature.Results().At(0).Type()), true
	}
	intrinsics["time.Since"] = func(in *Interp, c *frame, fn *ssa.Function, a []value) (value, bool) {
		return uint64(0), true
	}
	intrinsics["os.Getenv"] = func(in *Interp, c *frame, fn *ssa.Function, a []value) (value, bool) { return "", true }
	intrinsics["runtime.Callers"] = func(in *Interp, c *frame, fn *ssa.Function, a []value) (value, bool) {
		return uint64(0), true
	}
	intrinsics["unicode/utf8.ValidString"] = func(in *Interp, c *frame, fn *ssa.Function, a []value) (value, bool) {
		if s, ok := a[0].(string); ok {
			return utf8.ValidString(s), true
		}
		// symbolic: valid iff all ASCII on this path, else unsupported
		for _, b := range a[0].(*SymStr).b {
			if t, ok := b.(*Term); ok {
				if !in.branch(mkCmp("bvult", t, mkBV(0x80, 8))) {
					panic(unsupported{"utf8.ValidString on symbolic non-ASCII"})
				}
			} else if b.(uint64) >= 0x80 {
				panic(unsupported{"utf8.ValidString on mixed non-ASCII"})
			}
		}
		return true, true
	}
}

func (in *Interp) mkErrorV(msg value) value {
	pkg := in.prog.ImportedPackage("errors")
	return in.callSSA(nil, token.NoPos, pkg.Func("New"), []value{msg}, nil, false)
}

// ---------------------------------------------------------------- native pass-through

// nativePassThrough executes selected pure standard-library functions
// natively when all arguments are concrete.
func (in *Interp) nativePassThrough(fn *ssa.Function, a []value) (value, bool) {
	if !allConcrete(a) {
		return nil, false
	}
	f, ok := natives[fn.String()]
	if !ok {
		return nil, false
	}
	return f(in, a), true
}

var natives = map[string]func(in *Interp, a []value) value{}

func init() {
	str := func(v value) string { return v.(string) }
	u := func(v value) uint64 { return v.(uint64) }
	errOrNil := func(in *Interp, err error) value {
		if err == nil {
			return iface{}
		}
		if ne, ok := err.(*strconv.NumError); ok {
			what := "invalid syntax"
			if ne.Err == strconv.ErrRange {
				what = "value out of range"
			}
			return in.numError(ne.Func, ne.Num, what)
		}
		return in.mkError(err.Error())
	}
	natives["strconv.Itoa"] = func(in *Interp, a []value) value { return strconv.Itoa(int(i64(a[0]))) }
	natives["strconv.Atoi"] = func(in *Interp, a []value) value {
		v, err := strconv.Atoi(str(a[0]))
		return tuple{uint64(int64(v)), errOrNil(in, err)}
	}
	natives["strconv.ParseInt"] = func(in *Interp, a []value) value {
		v, err := strconv.ParseInt(str(a[0]), int(i64(a[1])), int(i64(a[2])))
		return tuple{uint64(v), errOrNil(in, err)}
	}
	natives["strconv.ParseUint"] = func(in *Interp, a []value) value {
		v, err := strconv.ParseUint(str(a[0]), int(i64(a[1])), int(i64(a[2])))
		return tuple{v, errOrNil(in, err)}
	}
	natives["strconv.ParseFloat"] = func(in *Interp, a []value) value {
		v, err := strconv.ParseFloat(str(a[0]), int(i64(a[1])))
		return tuple{v, errOrNil(in, err)}
	}
	natives["strconv.ParseBool"] = func(in *Interp, a []value) value {
		v, err := strconv.ParseBool(str(a[0]))
		return tuple{v, errOrNil(in, err)}
	}
	natives["strconv.FormatInt"] = func(in *Interp, a []value) value { return strconv.FormatInt(i64(a[0]), int(i64(a[1]))) }
	natives["strconv.FormatUint"] = func(in *Interp, a []value) value { return strconv.FormatUint(u(a[0]), int(i64(a[1]))) }
	natives["strconv.FormatFloat"] = func(in *Interp, a []value) value {
		return strconv.FormatFloat(a[0].(float64), byte(u(a[1])), int(i64(a[2])), int(i64(a[3])))
	}
	natives["strconv.FormatBool"] = func(in *Interp, a []value) value { return strconv.FormatBool(a[0].(bool)) }
	natives["strconv.Quote"] = func(in *Interp, a []value) value { return strconv.Quote(str(a[0])) }
	natives["strconv.Unquote"] = func(in *Interp, a []value) value {
		v, err := strconv.Unquote(str(a[0]))
		return tuple{v, errOrNil(in, err)}
	}
	natives["strings.Index"] = func(in *Interp, a []value) value { return uint64(int64(strings.Index(str(a[0]), str(a[1])))) }
	natives["strings.IndexByte"] = func(in *Interp, a []value) value {
		return uint64(int64(strings.IndexByte(str(a[0]), byte(u(a[1])))))
	}
	natives["strings.LastIndex"] = func(in *Interp, a []value) value {
		return uint64(int64(strings.LastIndex(str(a[0]), str(a[1]))))
	}
	natives["strings.Contains"] = func(in *Interp, a []value) value { return strings.Contains(str(a[0]), str(a[1])) }
	natives["strings.HasPrefix"] = func(in *Interp, a []value) value { return strings.HasPrefix(str(a[0]), str(a[1])) }
	natives["strings.HasSuffix"] = func(in *Interp, a []value) value { return strings.HasSuffix(str(a[0]), str(a[1])) }
	natives["strings.ToUpper"] = func(in *Interp, a []value) value { return strings.ToUpper(str(a[0])) }
	natives["strings.ToLower"] = func(in *Interp, a []value) value { return strings.ToLower(str(a[0])) }
	natives["strings.TrimSpace"] = func(in *Interp, a []value) value { return strings.TrimSpace(str(a[0])) }
	natives["strings.Trim"] = func(in *Interp, a []value) value { return strings.Trim(str(a[0]), str(a[1])) }
	natives["strings.TrimPrefix"] = func(in *Interp, a []value) value { return strings.TrimPrefix(str(a[0]), str(a[1])) }
	natives["strings.TrimSuffix"] = func(in *Interp, a []value) value { return strings.TrimSuffix(str(a[0]), str(a[1])) }
	natives["strings.TrimLeft"] = func(in *Interp, a []value) value { return strings.TrimLeft(str(a[0]), str(a[1])) }
	natives["strings.TrimRight"] = func(in *Interp, a []value) value { return strings.TrimRight(str(a[0]), str(a[1])) }
	natives["strings.Replace"] = func(in *Interp, a []value) value {
		return strings.Replace(str(a[0]), str(a[1]), str(a[2]), int(i64(a[3])))
	}
	natives["strings.ReplaceAll"] = func(in *Interp, a []value) value { return strings.ReplaceAll(str(a[0]), str(a[1]), str(a[2])) }
	natives["strings.Repeat"] = func(in *Interp, a []value) value { return strings.Repeat(str(a[0]), int(i64(a[1]))) }
	natives["strings.Count"] = func(in *Interp, a []value) value { return uint64(strings.Count(str(a[0]), str(a[1]))) }
	natives["strings.EqualFold"] = func(in *Interp, a []value) value { return strings.EqualFold(str(a[0]), str(a[1])) }
	natives["strings.Compare"] = func(in *Interp, a []value) value { return uint64(int64(strings.Compare(str(a[0]), str(a[1])))) }
	natives["strings.Title"] = func(in *Interp, a []value) value { return strings.Title(str(a[0])) }
	strSliceV := func(ss []string) value {
		r := make([]value, len(ss))
		for i, s := range ss {
			r[i] = s
		}
		if ss == nil {
			return []value(nil)
		}
		return r
	}
	natives["strings.Split"] = func(in *Interp, a []value) value { return strSliceV(strings.Split(str(a[0]), str(a[1]))) }
	natives["strings.SplitN"] = func(in *Interp, a []value) value {
		return strSliceV(strings.SplitN(str(a[0]), str(a[1]), int(i64(a[2]))))
	}
	natives["strings.Fields"] = func(in *Interp, a []value) value { return strSliceV(strings.Fields(str(a[0]))) }
	natives["strings.Join"] = func(in *Interp, a []value) value {
		var ss []string
		for _, e := range a[0].([]value) {
			ss = append(ss, e.(string))
		}
		return strings.Join(ss, str(a[1]))
	}
	natives["unicode.IsSpace"] = func(in *Interp, a []value) value { return unicode.IsSpace(rune(int32(u(a[0])))) }
	natives["unicode.IsDigit"] = func(in *Interp, a []value) value { return unicode.IsDigit(rune(int32(u(a[0])))) }
	natives["unicode.IsLetter"] = func(in *Interp, a []value) value { return unicode.IsLetter(rune(int32(u(a[0])))) }
	natives["unicode.IsUpper"] = func(in *Interp, a []value) value { return unicode.IsUpper(rune(int32(u(a[0])))) }
	natives["unicode.IsLower"] = func(in *Interp, a []value) value { return unicode.IsLower(rune(int32(u(a[0])))) }
	natives["unicode.IsPunct"] = func(in *Interp, a []value) value { return unicode.IsPunct(rune(int32(u(a[0])))) }
	natives["unicode.ToUpper"] = func(in *Interp, a []value) value { return uint64(uint32(unicode.ToUpper(rune(int32(u(a[0])))))) }
	natives["unicode.ToLower"] = func(in *Interp, a []value) value { return uint64(uint32(unicode.ToLower(rune(int32(u(a[0])))))) }
	natives["sort.Strings"] = func(in *Interp, a []value) value {
		s := a[0].([]value)
		ss := make([]string, len(s))
		for i := range s {
			ss[i] = s[i].(string)
		}
		sort.Strings(ss)
		for i := range s {
			s[i] = ss[i]
		}
		return nil
	}
	// natives are also consulted for functions that do have bodies (speed and
	// to avoid interpreting unsafe-heavy code); see callSSA.
}
