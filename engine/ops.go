package main

import (
	"fmt"
	"go/constant"
	"go/token"
	"go/types"
	"math"
	"unicode/utf8"

	"golang.org/x/tools/go/ssa"
)

// Signals -----------------------------------------------------------------

// targetPanic: the interpreted program panicked.
type targetPanic struct{ v value }

// unsupported: the engine cannot execute something; the path is inconclusive.
type unsupported struct{ msg string }

// pathEnd: the current path is over (assumption failed, assertion violated
// and recorded, bound exceeded).
type pathEnd struct {
	kind string // "assume", "violation", "bound", "done"
	msg  string
}

func rtPanic(msg string) targetPanic {
	return targetPanic{iface{t: rtErrorType, v: "runtime error: " + msg}}
}

// rtErrorType is a stand-in named type for runtime errors.
var rtErrorType types.Type = types.NewNamed(types.NewTypeName(token.NoPos, nil, "runtimeError", nil), types.Typ[types.String], nil)

func constValue(c *ssa.Const) value {
	if c.Value == nil {
		return zero(c.Type())
	}
	if t, ok := c.Type().Underlying().(*types.Basic); ok {
		info := t.Info()
		switch {
		case info&types.IsBoolean != 0:
			return constant.BoolVal(c.Value)
		case info&types.IsInteger != 0:
			w, signed, _ := intInfo(t)
			if signed {
				return uint64(c.Int64()) & maskW(w)
			}
			return c.Uint64() & maskW(w)
		case info&types.IsFloat != 0:
			f := c.Float64()
			if t.Kind() == types.Float32 {
				f = float64(float32(f))
			}
			return f
		case info&types.IsComplex != 0:
			return c.Complex128()
		case info&types.IsString != 0:
			if c.Value.Kind() == constant.String {
				return constant.StringVal(c.Value)
			}
			return string(rune(c.Int64()))
		}
	}
	panic(unsupported{fmt.Sprintf("constValue: %s", c)})
}

// asInt returns a concrete integer as int64 given its static type.
func asInt(v value, t types.Type) (int64, bool) {
	u, ok := v.(uint64)
	if !ok {
		return 0, false
	}
	w, signed, ok2 := intInfo(t)
	if !ok2 {
		return int64(u), true
	}
	if signed {
		return sext(u, w), true
	}
	return int64(u), true
}

// ---------------------------------------------------------------- binop

func (in *Interp) binop(op token.Token, tx, ty types.Type, x, y value) value {
	switch op {
	case token.EQL:
		return in.equals(tx, x, y)
	case token.NEQ:
		return in.not(in.equals(tx, x, y))
	}
	if _, ok := x.(poison); ok {
		panic(unsupported{"use of poisoned value: " + x.(poison).why})
	}
	if _, ok := y.(poison); ok {
		panic(unsupported{"use of poisoned value: " + y.(poison).why})
	}
	if w, signed, ok := intInfo(tx); ok {
		return in.intBinop(op, w, signed, ty, x, y)
	}
	if isFloat(tx) {
		return in.floatBinop(op, isFloat32(tx), x, y)
	}
	if isString(tx) {
		return in.stringBinop(op, x, y)
	}
	if isBool(tx) {
		// & | on bools do not exist in Go; &&/|| are control flow. But AND/OR
		// on booleans can appear for named bool consts? no.
	}
	if isComplex(tx) {
		a, b := x.(complex128), y.(complex128)
		switch op {
		case token.ADD:
			return a + b
		case token.SUB:
			return a - b
		case token.MUL:
			return a * b
		case token.QUO:
			return a / b
		}
	}
	panic(unsupported{fmt.Sprintf("binop %s on %s (%T, %T)", op, tx, x, y)})
}

func (in *Interp) not(v value) value {
	switch v := v.(type) {
	case bool:
		return !v
	case *Term:
		return fromTerm(mkNot(v))
	}
	panic(fmt.Sprintf("not: %T", v))
}

func (in *Interp) intBinop(op token.Token, w int, signed bool, ty types.Type, x, y value) value {
	xu, xc := x.(uint64)
	yu, yc := y.(uint64)
	m := maskW(w)
	if op == token.SHL || op == token.SHR {
		wy, ysigned, _ := intInfo(ty)
		if yc {
			if ysigned && sext(yu, wy) < 0 {
				panic(rtPanic("negative shift amount"))
			}
			if xc {
				if op == token.SHL {
					if yu >= uint64(w) {
						return uint64(0)
					}
					return (xu << yu) & m
				}
				if signed {
					sx := sext(xu, w)
					if yu >= uint64(w) {
						yu = uint64(w - 1)
					}
					return uint64(sx>>yu) & m
				}
				if yu >= uint64(w) {
					return uint64(0)
				}
				return xu >> yu
			}
		}
		xt := toTerm(x, w)
		var yt *Term
		if yc {
			if yu > 64 {
				yu = 64
			}
			yt = mkBV(yu, w)
			if w < 8 {
				panic("narrow shift")
			}
		} else {
			ys := y.(*Term)
			if ysigned {
				// negative count panics
				neg := mkCmp("bvslt", ys, mkBV(0, wy))
				if in.branch(neg) {
					panic(rtPanic("negative shift amount"))
				}
			}
			if wy <= w {
				yt = mkZext(ys, w)
			} else {
				// count wider than operand: saturate
				big := mkCmp("bvule", mkBV(uint64(w), wy), ys)
				yt = mkIte(big, mkBV(uint64(w), w), mkExtract(w-1, 0, ys))
			}
		}
		switch {
		case op == token.SHL:
			return fromTerm(mkBin("bvshl", xt, yt))
		case signed:
			return fromTerm(mkBin("bvashr", xt, yt))
		default:
			return fromTerm(mkBin("bvlshr", xt, yt))
		}
	}
	if xc && yc {
		sx, sy := sext(xu, w), sext(yu, w)
		switch op {
		case token.ADD:
			return (xu + yu) & m
		case token.SUB:
			return (xu - yu) & m
		case token.MUL:
			return (xu * yu) & m
		case token.QUO:
			if yu == 0 {
				panic(rtPanic("integer divide by zero"))
			}
			if signed {
				if sy == -1 {
					return uint64(-sx) & m
				}
				return uint64(sx/sy) & m
			}
			return xu / yu
		case token.REM:
			if yu == 0 {
				panic(rtPanic("integer divide by zero"))
			}
			if signed {
				if sy == -1 {
					return uint64(0)
				}
				return uint64(sx%sy) & m
			}
			return xu % yu
		case token.AND:
			return xu & yu
		case token.OR:
			return xu | yu
		case token.XOR:
			return xu ^ yu
		case token.AND_NOT:
			return xu &^ yu
		case token.LSS:
			if signed {
				return sx < sy
			}
			return xu < yu
		case token.LEQ:
			if signed {
				return sx <= sy
			}
			return xu <= yu
		case token.GTR:
			if signed {
				return sx > sy
			}
			return xu > yu
		case token.GEQ:
			if signed {
				return sx >= sy
			}
			return xu >= yu
		}
		panic(unsupported{"int binop " + op.String()})
	}
	xt, yt := toTerm(x, w), toTerm(y, w)
	switch op {
	case token.ADD:
		return fromTerm(mkBin("bvadd", xt, yt))
	case token.SUB:
		return fromTerm(mkBin("bvsub", xt, yt))
	case token.MUL:
		return fromTerm(mkBin("bvmul", xt, yt))
	case token.QUO, token.REM:
		if yc {
			if yu == 0 {
				panic(rtPanic("integer divide by zero"))
			}
		} else {
			if in.branch(mkEq(yt, mkBV(0, w))) {
				panic(rtPanic("integer divide by zero"))
			}
		}
		var o string
		switch {
		case op == token.QUO && signed:
			o = "bvsdiv"
		case op == token.QUO:
			o = "bvudiv"
		case signed:
			o = "bvsrem"
		default:
			o = "bvurem"
		}
		return fromTerm(mkBin(o, xt, yt))
	case token.AND:
		return fromTerm(mkBin("bvand", xt, yt))
	case token.OR:
		return fromTerm(mkBin("bvor", xt, yt))
	case token.XOR:
		return fromTerm(mkBin("bvxor", xt, yt))
	case token.AND_NOT:
		return fromTerm(mkBin("bvand", xt, mkBVNot(yt)))
	case token.LSS:
		if signed {
			return fromTerm(mkCmp("bvslt", xt, yt))
		}
		return fromTerm(mkCmp("bvult", xt, yt))
	case token.LEQ:
		if signed {
			return fromTerm(mkCmp("bvsle", xt, yt))
		}
		return fromTerm(mkCmp("bvule", xt, yt))
	case token.GTR:
		if signed {
			return fromTerm(mkCmp("bvslt", yt, xt))
		}
		return fromTerm(mkCmp("bvult", yt, xt))
	case token.GEQ:
		if signed {
			return fromTerm(mkCmp("bvsle", yt, xt))
		}
		return fromTerm(mkCmp("bvule", yt, xt))
	}
	panic(unsupported{"int binop " + op.String()})
}

func (in *Interp) floatBinop(op token.Token, f32 bool, x, y value) value {
	xf, xc := x.(float64)
	yf, yc := y.(float64)
	if xc && yc {
		var r float64
		switch op {
		case token.ADD:
			r = xf + yf
		case token.SUB:
			r = xf - yf
		case token.MUL:
			r = xf * yf
		case token.QUO:
			r = xf / yf
		case token.LSS:
			return xf < yf
		case token.LEQ:
			return xf <= yf
		case token.GTR:
			return xf > yf
		case token.GEQ:
			return xf >= yf
		default:
			panic(unsupported{"float binop " + op.String()})
		}
		if f32 {
			if op == token.ADD || op == token.SUB || op == token.MUL || op == token.QUO {
				a, b := float32(xf), float32(yf)
				switch op {
				case token.ADD:
					return float64(a + b)
				case token.SUB:
					return float64(a - b)
				case token.MUL:
					return float64(a * b)
				case token.QUO:
					return float64(a / b)
				}
			}
		}
		return r
	}
	// integer-valued floats with an empty chain (float64(i), |i| small by the
	// harness's stated assumption): + - and comparisons are exact integer
	// operations; a concrete operand must be integral or an infinity
	if r, ok := in.intFloatArith(op, x, y); ok {
		return r
	}
	// integer-valued floats: multiplication by a concrete constant only
	if xi, ok := x.(intFloat); ok {
		if op == token.MUL && yc && !f32 {
			return xi.mul(yf)
		}
		panic(unsupported{"arithmetic on an integer-valued symbolic float: " + op.String()})
	}
	if yi, ok := y.(intFloat); ok {
		if op == token.MUL && xc && !f32 {
			return yi.mul(xf)
		}
		panic(unsupported{"arithmetic on an integer-valued symbolic float: " + op.String()})
	}
	// ordered atoms: comparisons only
	xt, yt := floatTerm(x), floatTerm(y)
	switch op {
	case token.LSS:
		return fromTerm(mkCmp("<", xt, yt))
	case token.LEQ:
		return fromTerm(mkCmp("<=", xt, yt))
	case token.GTR:
		return fromTerm(mkCmp("<", yt, xt))
	case token.GEQ:
		return fromTerm(mkCmp("<=", yt, xt))
	}
	panic(unsupported{"arithmetic on symbolic float: " + op.String()})
}

func (in *Interp) stringBinop(op token.Token, x, y value) value {
	xs, xc := x.(string)
	ys, yc := y.(string)
	if xc && yc {
		switch op {
		case token.ADD:
			return xs + ys
		case token.LSS:
			return xs < ys
		case token.LEQ:
			return xs <= ys
		case token.GTR:
			return xs > ys
		case token.GEQ:
			return xs >= ys
		}
	}
	switch op {
	case token.ADD:
		return strConcat(x, y)
	case token.LSS:
		return fromTerm(strLess(x, y, false))
	case token.LEQ:
		return fromTerm(strLess(x, y, true))
	case token.GTR:
		return fromTerm(strLess(y, x, false))
	case token.GEQ:
		return fromTerm(strLess(y, x, true))
	}
	panic(unsupported{"string binop " + op.String()})
}

// strLess builds the term for a < b (or a <= b) over byte strings.
func strLess(a, b value, orEq bool) *Term {
	la, lb := strLen(a), strLen(b)
	n := la
	if lb < n {
		n = lb
	}
	// result when common prefix equal:
	var res *Term
	if orEq {
		res = mkBool(la <= lb)
	} else {
		res = mkBool(la < lb)
	}
	for i := n - 1; i >= 0; i-- {
		ai, bi := toTerm(strByte(a, i), 8), toTerm(strByte(b, i), 8)
		res = mkIte(mkCmp("bvult", ai, bi), tTrue, mkIte(mkCmp("bvult", bi, ai), tFalse, res))
	}
	return res
}

func strEqTerm(a, b value) *Term {
	if strLen(a) != strLen(b) {
		return tFalse
	}
	res := tTrue
	for i := 0; i < strLen(a); i++ {
		res = mkAnd(res, mkEq(toTerm(strByte(a, i), 8), toTerm(strByte(b, i), 8)))
	}
	return res
}

// ---------------------------------------------------------------- equality

// equals returns bool or *Term(Bool).
func (in *Interp) equals(t types.Type, x, y value) value {
	return fromTerm(in.eqTerm(t, x, y))
}

func (in *Interp) eqTerm(t types.Type, x, y value) *Term {
	switch x := x.(type) {
	case poison:
		panic(unsupported{"use of poisoned value: " + x.why})
	case bool:
		switch y := y.(type) {
		case bool:
			return mkBool(x == y)
		case *Term:
			return mkEq(mkBool(x), y)
		}
	case uint64:
		switch y := y.(type) {
		case uint64:
			return mkBool(x == y)
		case *Term:
			return mkEq(mkBV(x, y.sort.w), y)
		}
	case float64:
		switch y := y.(type) {
		case float64:
			return mkBool(x == y)
		case *Term:
			return mkEq(floatTerm(x), y)
		}
	case intFloat:
		if y, ok := y.(intFloat); ok && x.chain == y.chain {
			return mkEq(x.t, y.t)
		}
		if yf, ok := y.(float64); ok && x.chain == "" {
			if yt, ok := intFloatOfConcrete(yf); ok {
				return mkEq(x.t, yt)
			}
			return tFalse // an infinity or a non-integral value
		}
		panic(unsupported{"comparison of integer-valued symbolic floats with different histories"})
	case complex128:
		return mkBool(x == y.(complex128))
	case *Term:
		switch y := y.(type) {
		case *Term:
			return mkEq(x, y)
		case uint64:
			return mkEq(x, mkBV(y, x.sort.w))
		case bool:
			return mkEq(x, mkBool(y))
		case float64:
			return mkEq(x, floatTerm(y))
		}
	case string:
		switch y := y.(type) {
		case string:
			return mkBool(x == y)
		case *SymStr:
			return strEqTerm(x, y)
		}
	case *SymStr:
		return strEqTerm(x, y)
	case *value:
		switch y := y.(type) {
		case *value:
			return mkBool(x == y)
		case strPtr:
			return tFalse
		}
	case strPtr:
		if y, ok := y.(strPtr); ok {
			return mkBool(x.off == y.off && fmt.Sprintf("%p", x.s) == fmt.Sprintf("%p", y.s))
		}
		return tFalse
	case *Chan:
		return mkBool(x == y.(*Chan))
	case *Map:
		// only comparison with nil is legal
		ym, _ := y.(*Map)
		return mkBool(x == nil && ym == nil)
	case []value:
		yv, _ := y.([]value)
		return mkBool(x == nil && yv == nil)
	case *ssa.Function:
		switch y := y.(type) {
		case *ssa.Function:
			return mkBool(x == y)
		case *closure:
			return mkBool(x == nil && y == nil)
		}
		return tFalse
	case *closure:
		switch y := y.(type) {
		case *ssa.Function:
			return mkBool(x == nil && y == nil)
		case *closure:
			return mkBool(x == y)
		}
		return tFalse
	case *ssa.Builtin:
		return mkBool(x == y)
	case structure:
		y := y.(structure)
		st := t.Underlying().(*types.Struct)
		res := tTrue
		for i := range x {
			if st.Field(i).Name() == "_" {
				continue
			}
			res = mkAnd(res, in.eqTerm(st.Field(i).Type(), x[i], y[i]))
			if res == tFalse {
				return res
			}
		}
		return res
	case array:
		y := y.(array)
		et := t.Underlying().(*types.Array).Elem()
		res := tTrue
		for i := range x {
			res = mkAnd(res, in.eqTerm(et, x[i], y[i]))
			if res == tFalse {
				return res
			}
		}
		return res
	case iface:
		y, ok := y.(iface)
		if !ok {
			panic(fmt.Sprintf("eq: iface vs %T", y))
		}
		if x.t == nil || y.t == nil {
			return mkBool(x.t == nil && y.t == nil)
		}
		if !types.Identical(x.t, y.t) {
			return tFalse
		}
		switch x.t.Underlying().(type) {
		case *types.Slice, *types.Map, *types.Signature:
			panic(rtPanic("comparing uncomparable type " + x.t.String()))
		}
		return in.eqTerm(x.t, x.v, y.v)
	case rtype:
		if y, ok := y.(rtype); ok {
			return mkBool(types.Identical(x.t, y.t))
		}
		return tFalse
	}
	panic(unsupported{fmt.Sprintf("equals: %T vs %T (type %v)", x, y, t)})
}

// ---------------------------------------------------------------- unop

func (in *Interp) unop(instr *ssa.UnOp, x value) value {
	switch instr.Op {
	case token.ARROW:
		return in.chanRecv(x, instr.CommaOk, instr.X.Type())
	case token.MUL:
		return in.load(x, deref(instr.X.Type()))
	case token.SUB:
		t := instr.X.Type()
		if w, _, ok := intInfo(t); ok {
			switch x := x.(type) {
			case uint64:
				return (-x) & maskW(w)
			case *Term:
				return fromTerm(mkBVNeg(x))
			}
		}
		switch x := x.(type) {
		case float64:
			return -x
		case complex128:
			return -x
		}
	case token.NOT:
		return in.not(x)
	case token.XOR:
		w, _, _ := intInfo(instr.X.Type())
		switch x := x.(type) {
		case uint64:
			return (^x) & maskW(w)
		case *Term:
			return fromTerm(mkBVNot(x))
		}
	}
	panic(unsupported{fmt.Sprintf("unop %s on %T", instr.Op, x)})
}

// load reads *p.
func (in *Interp) load(p value, t types.Type) value {
	switch p := p.(type) {
	case *value:
		if p == nil {
			panic(rtPanic("invalid memory address or nil pointer dereference"))
		}
		v := *p
		if pz, ok := v.(poison); ok {
			panic(unsupported{"load of poisoned location: " + pz.why})
		}
		return copyVal(v)
	case strPtr:
		switch s := p.s.(type) {
		case []value:
			if p.off >= len(s) {
				panic(unsupported{"unsafe pointer load out of range"})
			}
			return s[p.off]
		default:
			if p.off >= strLen(p.s) {
				panic(unsupported{"unsafe pointer load out of range"})
			}
			return strByte(p.s, p.off)
		}
	case symPtr:
		return in.symLoad(p)
	case poison:
		panic(unsupported{"deref of poisoned pointer: " + p.why})
	}
	panic(unsupported{fmt.Sprintf("load through %T", p)})
}

func (in *Interp) store(p value, v value) {
	switch p := p.(type) {
	case *value:
		if p == nil {
			panic(rtPanic("invalid memory address or nil pointer dereference"))
		}
		storeVal(p, v)
		return
	case symPtr:
		in.symStore(p, v)
		return
	}
	panic(unsupported{fmt.Sprintf("store through %T", p)})
}

// symLoad reads elems[idx] for symbolic idx known to be in range.
func (in *Interp) symLoad(p symPtr) value {
	if (p.w > 0 || p.isBool) && len(p.elems) > 0 {
		conv := func(e value) *Term {
			if p.isBool {
				return boolTerm(e)
			}
			return toTerm(e, p.w)
		}
		res := conv(p.elems[len(p.elems)-1])
		for i := len(p.elems) - 2; i >= 0; i-- {
			res = mkIte(mkEq(p.idx, mkBV(uint64(i), 64)), conv(p.elems[i]), res)
		}
		return fromTerm(res)
	}
	i := in.concretize(p.idx, len(p.elems))
	return copyVal(p.elems[i])
}

func (in *Interp) symStore(p symPtr, v value) {
	i := in.concretize(p.idx, len(p.elems))
	storeVal(&p.elems[i], v)
}

// ---------------------------------------------------------------- conversions

func (in *Interp) conv(tdst, tsrc types.Type, x value) value {
	if pz, ok := x.(poison); ok {
		panic(unsupported{"conversion of poisoned value: " + pz.why})
	}
	ud, us := tdst.Underlying(), tsrc.Underlying()
	// integer source
	if ws, ssigned, ok := intInfo(tsrc); ok {
		if wd, _, ok := intInfo(tdst); ok {
			switch x := x.(type) {
			case uint64:
				if ssigned {
					return uint64(sext(x, ws)) & maskW(wd)
				}
				return x & maskW(wd)
			case *Term:
				if wd <= ws {
					return fromTerm(mkExtract(wd-1, 0, x))
				}
				if ssigned {
					return fromTerm(mkSext(x, wd))
				}
				return fromTerm(mkZext(x, wd))
			}
		}
		if isFloat(tdst) {
			switch x := x.(type) {
			case uint64:
				var f float64
				if ssigned {
					f = float64(sext(x, ws))
				} else {
					f = float64(x)
				}
				if isFloat32(tdst) {
					f = float64(float32(f))
				}
				return f
			}
			if t, ok := x.(*Term); ok && !isFloat32(tdst) {
				return mkIntFloat(t, ws, ssigned)
			}
			panic(unsupported{"symbolic int to float conversion"})
		}
		if isString(tdst) {
			if u, ok := x.(uint64); ok {
				var r rune
				if ssigned {
					r = rune(sext(u, ws))
				} else {
					r = rune(u)
					if u > 0x10FFFF {
						r = utf8.RuneError
					}
				}
				return string(r)
			}
			if t, ok := x.(*Term); ok {
				var t64 *Term
				if ssigned {
					t64 = mkSext(t, 64)
				} else {
					t64 = mkZext(t, 64)
				}
				if in.branch(mkCmp("bvult", t64, mkBV(0x80, 64))) {
					return mkStr([]value{fromTerm(mkExtract(7, 0, t64))})
				}
				panic(unsupported{"string(symbolic non-ASCII rune)"})
			}
			panic(unsupported{"string(symbolic rune)"})
		}
		if isComplex(tdst) {
			panic(unsupported{"int to complex"})
		}
		if b, ok := ud.(*types.Basic); ok && b.Kind() == types.UnsafePointer {
			panic(unsupported{"uintptr to unsafe.Pointer"})
		}
	}
	if isFloat(tsrc) {
		if isFloat(tdst) {
			switch x := x.(type) {
			case float64:
				if isFloat32(tdst) {
					return float64(float32(x))
				}
				return x
			case *Term:
				return x
			case intFloat:
				if !isFloat32(tdst) {
					return x
				}
			}
		}
		if wd, dsigned, ok := intInfo(tdst); ok {
			if fi, isIF := x.(intFloat); isIF && fi.chain == "" {
				// float64(i) -> int: exact (i is a 64-bit integer; harnesses keep it
				// below 2^53 in magnitude, where the float conversion is exact)
				_ = dsigned
				return fromTerm(mkExtract(wd-1, 0, fi.t))
			}
			f, okc := x.(float64)
			if !okc {
				panic(unsupported{"symbolic float to int conversion"})
			}
			var r uint64
			switch {
			case dsigned && wd == 64:
				r = uint64(int64(f))
			case dsigned && wd == 32:
				r = uint64(int32(f))
			case dsigned && wd == 16:
				r = uint64(int16(f))
			case dsigned && wd == 8:
				r = uint64(int8(f))
			case wd == 64:
				r = uint64(f)
			case wd == 32:
				r = uint64(uint32(f))
			case wd == 16:
				r = uint64(uint16(f))
			default:
				r = uint64(uint8(f))
			}
			return r & maskW(wd)
		}
	}
	if isComplex(tsrc) && isComplex(tdst) {
		return x
	}
	if isString(tsrc) {
		if sl, ok := ud.(*types.Slice); ok {
			if w, _, _ := intInfo(sl.Elem()); w == 8 {
				return strBytes(x)
			}
			// []rune
			s, okc := x.(string)
			if !okc {
				panic(unsupported{"[]rune(symbolic string)"})
			}
			var r []value
			for _, c := range s {
				r = append(r, uint64(uint32(c)))
			}
			if r == nil {
				r = []value{}
			}
			return r
		}
		if isString(tdst) {
			return x
		}
	}
	if sl, ok := us.(*types.Slice); ok && isString(tdst) {
		xs := x.([]value)
		if w, _, _ := intInfo(sl.Elem()); w == 8 {
			return mkStr(xs)
		}
		var rs []rune
		for _, e := range xs {
			u, okc := e.(uint64)
			if !okc {
				panic(unsupported{"string([]rune) with symbolic rune"})
			}
			rs = append(rs, rune(int32(u)))
		}
		return string(rs)
	}
	// pointer <-> unsafe.Pointer and identical-underlying conversions
	switch ud.(type) {
	case *types.Pointer, *types.Basic:
		switch us.(type) {
		case *types.Pointer, *types.Basic:
			switch x.(type) {
			case *value, strPtr, symPtr:
				return x
			}
		}
	}
	if types.Identical(ud, us) {
		return x
	}
	panic(unsupported{fmt.Sprintf("conv %s -> %s (%T)", tsrc, tdst, x)})
}

var _ = math.Abs
