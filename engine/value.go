package main

// Boxed values of the interpreter.
//
//  bool, uint64 (every integer type, bit pattern masked to the type's width),
//  float64 (float32 and float64), complex128, string
//  *Term      symbolic scalar (bit-vector, Bool, or Real "ordered atom")
//  *SymStr    string whose bytes may be symbolic (length concrete)
//  *value     pointer; strPtr / symPtr special pointers
//  []value    slice;  array, structure, tuple
//  iface      interface value; *closure, *ssa.Function, *ssa.Builtin functions
//  *Map       ordered map; *Chan channel
//  poison     result of an initialiser that could not be executed

import (
	"fmt"
	"go/types"
	"math"
	"strings"

	"golang.org/x/tools/go/ssa"
)

type value interface{}

type tuple []value
type array []value
type structure []value

type iface struct {
	t types.Type
	v value
}

type closure struct {
	Fn  *ssa.Function
	Env []value
}

type bound struct { // bound method value is compiled by go/ssa into closures; unused
}

type poison struct{ why string }

type SymStr struct{ b []value }

// strPtr is what unsafe.StringData / unsafe.SliceData+Add produce.
type strPtr struct {
	s   value // string | *SymStr | []value
	off int
}

// symPtr is &s[i] for a symbolic in-range index i.
type symPtr struct {
	elems  []value
	idx    *Term // BV64
	w      int   // element width if integer
	isBool bool
}

type rtype struct{ t types.Type }

// ---------------------------------------------------------------- type info

func under(t types.Type) types.Type { return t.Underlying() }

// intInfo reports width and signedness for integer types.
func intInfo(t types.Type) (w int, signed bool, ok bool) {
	b, isb := t.Underlying().(*types.Basic)
	if !isb {
		return 0, false, false
	}
	switch b.Kind() {
	case types.Int, types.Int64, types.UntypedInt:
		return 64, true, true
	case types.Int8:
		return 8, true, true
	case types.Int16:
		return 16, true, true
	case types.Int32, types.UntypedRune:
		return 32, true, true
	case types.Uint, types.Uint64, types.Uintptr:
		return 64, false, true
	case types.Uint8:
		return 8, false, true
	case types.Uint16:
		return 16, false, true
	case types.Uint32:
		return 32, false, true
	}
	return 0, false, false
}

func isFloat(t types.Type) bool {
	b, ok := t.Underlying().(*types.Basic)
	return ok && b.Info()&types.IsFloat != 0
}
func isFloat32(t types.Type) bool {
	b, ok := t.Underlying().(*types.Basic)
	return ok && b.Kind() == types.Float32
}
func isString(t types.Type) bool {
	b, ok := t.Underlying().(*types.Basic)
	return ok && b.Info()&types.IsString != 0
}
func isBool(t types.Type) bool {
	b, ok := t.Underlying().(*types.Basic)
	return ok && b.Info()&types.IsBoolean != 0
}
func isComplex(t types.Type) bool {
	b, ok := t.Underlying().(*types.Basic)
	return ok && b.Info()&types.IsComplex != 0
}

func deref(t types.Type) types.Type {
	if p, ok := t.Underlying().(*types.Pointer); ok {
		return p.Elem()
	}
	panic(fmt.Sprintf("deref: not a pointer: %v", t))
}

// zero returns a new zero value of type t.
func zero(t types.Type) value {
	switch t := t.(type) {
	case *types.Basic:
		if t.Info()&types.IsUntyped != 0 && t.Kind() != types.UntypedNil {
			t = types.Default(t).(*types.Basic)
		}
		switch {
		case t.Kind() == types.UntypedNil:
			return iface{}
		case t.Info()&types.IsBoolean != 0:
			return false
		case t.Info()&types.IsInteger != 0:
			return uint64(0)
		case t.Info()&types.IsFloat != 0:
			return float64(0)
		case t.Info()&types.IsComplex != 0:
			return complex128(0)
		case t.Info()&types.IsString != 0:
			return ""
		case t.Kind() == types.UnsafePointer:
			return (*value)(nil)
		}
		panic(fmt.Sprint("zero for unexpected basic type: ", t))
	case *types.Pointer:
		return (*value)(nil)
	case *types.Array:
		a := make(array, t.Len())
		for i := range a {
			a[i] = zero(t.Elem())
		}
		return a
	case *types.Named:
		return zero(t.Underlying())
	case *types.Alias:
		return zero(types.Unalias(t))
	case *types.Interface:
		return iface{}
	case *types.Slice:
		return []value(nil)
	case *types.Struct:
		s := make(structure, t.NumFields())
		for i := range s {
			s[i] = zero(t.Field(i).Type())
		}
		return s
	case *types.Tuple:
		if t.Len() == 1 {
			return zero(t.At(0).Type())
		}
		s := make(tuple, t.Len())
		for i := range s {
			s[i] = zero(t.At(i).Type())
		}
		return s
	case *types.Chan:
		return (*Chan)(nil)
	case *types.Map:
		return (*Map)(nil)
	case *types.Signature:
		return (*ssa.Function)(nil)
	case *types.TypeParam:
		panic(unsupported{"zero of type parameter " + t.String()})
	}
	panic(fmt.Sprint("zero: unexpected ", t))
}

// copyVal returns a copy of an aggregate value (struct/array assignment
// semantics). Scalars, pointers, slices, maps are returned as is.
func copyVal(v value) value {
	switch v := v.(type) {
	case structure:
		a := make(structure, len(v))
		for i := range v {
			a[i] = copyVal(v[i])
		}
		return a
	case array:
		a := make(array, len(v))
		for i := range v {
			a[i] = copyVal(v[i])
		}
		return a
	}
	return v
}

// storeVal stores v into *addr with value semantics, in place for aggregates
// (pointers to fields/elements of the destination stay valid).
func storeVal(addr *value, v value) {
	switch rhs := v.(type) {
	case structure:
		if lhs, ok := (*addr).(structure); ok && len(lhs) == len(rhs) {
			for i := range lhs {
				storeVal(&lhs[i], rhs[i])
			}
			return
		}
		*addr = copyVal(v)
	case array:
		if lhs, ok := (*addr).(array); ok && len(lhs) == len(rhs) {
			for i := range lhs {
				storeVal(&lhs[i], rhs[i])
			}
			return
		}
		*addr = copyVal(v)
	default:
		*addr = v
	}
}

// ---------------------------------------------------------------- strings

func strLen(s value) int {
	switch s := s.(type) {
	case string:
		return len(s)
	case *SymStr:
		return len(s.b)
	}
	panic(fmt.Sprintf("strLen: %T", s))
}

func strByte(s value, i int) value {
	switch s := s.(type) {
	case string:
		return uint64(s[i])
	case *SymStr:
		return s.b[i]
	}
	panic(fmt.Sprintf("strByte: %T", s))
}

func strBytes(s value) []value {
	switch s := s.(type) {
	case string:
		b := make([]value, len(s))
		for i := 0; i < len(s); i++ {
			b[i] = uint64(s[i])
		}
		return b
	case *SymStr:
		return append([]value(nil), s.b...)
	}
	panic(fmt.Sprintf("strBytes: %T", s))
}

// mkStr builds a string value from bytes, concrete if all bytes are.
func mkStr(b []value) value {
	conc := true
	for _, x := range b {
		if _, ok := x.(uint64); !ok {
			conc = false
			break
		}
	}
	if conc {
		bs := make([]byte, len(b))
		for i, x := range b {
			bs[i] = byte(x.(uint64))
		}
		return string(bs)
	}
	return &SymStr{b: append([]value(nil), b...)}
}

func strSlice(s value, lo, hi int) value {
	switch s := s.(type) {
	case string:
		return s[lo:hi]
	case *SymStr:
		return mkStr(s.b[lo:hi])
	}
	panic("strSlice")
}

func strConcat(a, b value) value {
	if x, ok := a.(string); ok {
		if y, ok := b.(string); ok {
			return x + y
		}
	}
	return mkStr(append(strBytes(a), strBytes(b)...))
}

// ---------------------------------------------------------------- symbolic helpers

func isSym(v value) bool {
	switch v.(type) {
	case *Term, *SymStr:
		return true
	}
	return false
}

// containsSym reports whether v (recursively through aggregates, not pointers)
// contains a symbolic scalar.
func containsSym(v value) bool {
	switch v := v.(type) {
	case *Term, *SymStr, intFloat:
		return true
	case structure:
		for _, x := range v {
			if containsSym(x) {
				return true
			}
		}
	case array:
		for _, x := range v {
			if containsSym(x) {
				return true
			}
		}
	case iface:
		return containsSym(v.v)
	}
	return false
}

// toTerm converts a scalar to a term of bit-width w (or Bool when w==0).
func toTerm(v value, w int) *Term {
	switch v := v.(type) {
	case *Term:
		return v
	case uint64:
		return mkBV(v, w)
	case bool:
		return mkBool(v)
	}
	panic(fmt.Sprintf("toTerm: %T", v))
}

func boolTerm(v value) *Term {
	switch v := v.(type) {
	case *Term:
		return v
	case bool:
		return mkBool(v)
	}
	panic(fmt.Sprintf("boolTerm: %T", v))
}

func floatTerm(v value) *Term {
	switch v := v.(type) {
	case *Term:
		return v
	case float64:
		if v == math.Trunc(v) && math.Abs(v) < 1e15 {
			return mkRealConst(int64(v))
		}
	}
	panic(unsupported{fmt.Sprintf("symbolic float mixed with non-integral concrete float %v", v)})
}

// fromTerm converts a constant term back to a concrete value.
func fromTerm(t *Term) value {
	if t.isConst() {
		switch t.sort.k {
		case sBool:
			return t.cval != 0
		case sBV:
			return t.cval
		case sReal:
			return float64(int64(t.cval))
		}
	}
	return t
}

// ---------------------------------------------------------------- debug printing

func toString(v value) string {
	var sb strings.Builder
	writeValue(&sb, v, 0)
	return sb.String()
}

func writeValue(sb *strings.Builder, v value, depth int) {
	if depth > 6 {
		sb.WriteString("…")
		return
	}
	switch v := v.(type) {
	case nil:
		sb.WriteString("<nil>")
	case bool, uint64, float64, complex128:
		fmt.Fprintf(sb, "%v", v)
	case string:
		fmt.Fprintf(sb, "%q", v)
	case *Term:
		sb.WriteString("sym:" + v.ref())
	case *SymStr:
		sb.WriteString("symstr[")
		for i, b := range v.b {
			if i > 0 {
				sb.WriteByte(' ')
			}
			writeValue(sb, b, depth+1)
		}
		sb.WriteByte(']')
	case *value:
		if v == nil {
			sb.WriteString("nil")
		} else {
			sb.WriteString("&")
			writeValue(sb, *v, depth+1)
		}
	case iface:
		if v.t == nil {
			sb.WriteString("nil-iface")
		} else {
			fmt.Fprintf(sb, "(%s)", v.t)
			writeValue(sb, v.v, depth+1)
		}
	case structure:
		sb.WriteString("{")
		for i, e := range v {
			if i > 0 {
				sb.WriteString(" ")
			}
			writeValue(sb, e, depth+1)
		}
		sb.WriteString("}")
	case array:
		sb.WriteString("[")
		for i, e := range v {
			if i > 0 {
				sb.WriteString(" ")
			}
			writeValue(sb, e, depth+1)
		}
		sb.WriteString("]")
	case []value:
		sb.WriteString("[]{")
		for i, e := range v {
			if i > 0 {
				sb.WriteString(" ")
			}
			writeValue(sb, e, depth+1)
		}
		sb.WriteString("}")
	case tuple:
		sb.WriteString("(")
		for i, e := range v {
			if i > 0 {
				sb.WriteString(", ")
			}
			writeValue(sb, e, depth+1)
		}
		sb.WriteString(")")
	case *ssa.Function:
		if v == nil {
			sb.WriteString("nil-func")
		} else {
			sb.WriteString(v.String())
		}
	case *closure:
		sb.WriteString("closure:" + v.Fn.String())
	case *Map:
		if v == nil {
			sb.WriteString("nil-map")
		} else {
			fmt.Fprintf(sb, "map[%d]", v.length())
		}
	case poison:
		sb.WriteString("poison(" + v.why + ")")
	default:
		fmt.Fprintf(sb, "<%T>", v)
	}
}
