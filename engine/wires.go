package main

// Bit-level wiring normal form.
//
// Extract, concat, zero/sign extension, shifts by constants and and/or/xor
// against constants (or against operands whose bits are disjoint) only move
// bits around.  Such terms are rebuilt in a canonical shape — a concatenation
// of maximal runs, each a constant or a slice of a "base" term — so that two
// different ways of wiring the same bits hash-cons to the same term.  In
// particular decoding a varint that was encoded from x (or'ing the 7-bit
// chunks back together) yields the term x itself, and the round-trip
// obligations of the codecs become syntactic identities instead of
// bit-blasting problems.
//
// The rewriting is checked against the plain semantics by `gosym -termtest`
// (random terms, random assignments), which ./check runs on every invocation.

type wire struct {
	src *Term // nil: constant bit
	bit int   // bit index in src, or the constant 0/1
}

func wiresOf(t *Term) []wire {
	w := t.sort.w
	ws := make([]wire, w)
	switch t.op {
	case "const":
		for i := range ws {
			ws[i] = wire{nil, int(t.cval >> uint(i) & 1)}
		}
	case "extract":
		a := wiresOf(t.args[0])
		copy(ws, a[t.p2:t.p2+w])
	case "concat":
		lo := wiresOf(t.args[1])
		hi := wiresOf(t.args[0])
		copy(ws, lo)
		copy(ws[len(lo):], hi)
	case "zext":
		a := wiresOf(t.args[0])
		copy(ws, a)
		for i := len(a); i < w; i++ {
			ws[i] = wire{nil, 0}
		}
	case "sext":
		a := wiresOf(t.args[0])
		copy(ws, a)
		for i := len(a); i < w; i++ {
			ws[i] = a[len(a)-1]
		}
	default:
		pz := pathZero[t]
		for i := range ws {
			switch {
			case (t.k0|pz)>>uint(i)&1 == 1:
				ws[i] = wire{nil, 0}
			case t.k1>>uint(i)&1 == 1:
				ws[i] = wire{nil, 1}
			default:
				ws[i] = wire{t, i}
			}
		}
	}
	return ws
}

// pathZero holds, for the path being executed, bits of base terms that the
// path condition forces to zero (learned from conjuncts of the form t < K, as
// left behind by loops like `for x >= 0x80 { ...; x >>= 7 }`).  Terms built
// while it is in force may be simplified with it; they are only used on this
// path, under this path condition.  Reset at the start of every path.
var pathZero = map[*Term]uint64{}

// learnZeroBits records what a new path-condition conjunct says about zero bits.
func learnZeroBits(c *Term) {
	var t, k *Term
	switch {
	case c.op == "bvult" && c.args[1].isConst():
		t, k = c.args[0], c.args[1] // t < K
	case c.op == "not" && c.args[0].op == "bvule" && c.args[0].args[0].isConst():
		t, k = c.args[0].args[1], c.args[0].args[0] // not (K <= t)
	case c.op == "=" && c.args[0].sort.k == sBV && (c.args[0].isConst() || c.args[1].isConst()):
		// t == const: every zero bit of the constant
		t, k = c.args[0], c.args[1]
		if t.isConst() {
			t, k = k, t
		}
		ws := wiresOf(t)
		for p, wr := range ws {
			if wr.src != nil && k.cval>>uint(p)&1 == 0 {
				pathZero[wr.src] |= 1 << uint(wr.bit)
			}
		}
		return
	default:
		return
	}
	if t.sort.k != sBV || k.cval == 0 {
		return
	}
	// t < K  =>  bits at and above bitlen(K-1) are zero
	n := 0
	for v := k.cval - 1; v != 0; v >>= 1 {
		n++
	}
	ws := wiresOf(t)
	for p := n; p < len(ws); p++ {
		if ws[p].src != nil {
			pathZero[ws[p].src] |= 1 << uint(ws[p].bit)
		}
	}
}

// fromWires builds the canonical term for a wiring.
func fromWires(ws []wire) *Term {
	var parts []*Term // low to high
	i := 0
	for i < len(ws) {
		if ws[i].src == nil {
			v := uint64(0)
			j := i
			for j < len(ws) && ws[j].src == nil && j-i < 64 {
				v |= uint64(ws[j].bit) << uint(j-i)
				j++
			}
			parts = append(parts, mkBV(v, j-i))
			i = j
			continue
		}
		src, lo := ws[i].src, ws[i].bit
		j := i + 1
		zmask := src.k0 | pathZero[src]
		for j < len(ws) {
			nb := lo + (j - i)
			if ws[j].src == src && ws[j].bit == nb {
				j++
				continue
			}
			// a constant 0 where the source's own next bit is known to be 0
			// continues the slice (so that zext(extract(k-1,0,x)) is x again
			// once the path condition says x < 2^k)
			if ws[j].src == nil && ws[j].bit == 0 && nb < src.sort.w && zmask>>uint(nb)&1 == 1 {
				j++
				continue
			}
			break
		}
		n := j - i
		if lo == 0 && n == src.sort.w {
			parts = append(parts, src)
		} else {
			parts = append(parts, tt.intern("extract", bvSort(n), 0, "", lo+n-1, lo, src))
		}
		i = j
	}
	// merge adjacent constants (a constant run is cut at 64 bits only)
	res := parts[0]
	for _, p := range parts[1:] {
		if p.isConst() && res.isConst() {
			res = mkBV(p.cval<<uint(res.sort.w)|res.cval, p.sort.w+res.sort.w)
			continue
		}
		res = tt.intern("concat", bvSort(p.sort.w+res.sort.w), 0, "", 0, 0, p, res)
	}
	return res
}

// wireBitop resolves and/or/xor bit by bit; ok=false if some bit needs logic.
func wireBitop(op string, a, b *Term) (*Term, bool) {
	aw, bw := wiresOf(a), wiresOf(b)
	out := make([]wire, len(aw))
	for i := range aw {
		x, y := aw[i], bw[i]
		if x.src != nil && y.src == nil {
			x, y = y, x
		}
		switch {
		case x.src == nil && y.src == nil:
			var v int
			switch op {
			case "bvand":
				v = x.bit & y.bit
			case "bvor":
				v = x.bit | y.bit
			default:
				v = x.bit ^ y.bit
			}
			out[i] = wire{nil, v}
		case x.src == nil: // constant against a wire
			switch {
			case op == "bvand" && x.bit == 0:
				out[i] = wire{nil, 0}
			case op == "bvand":
				out[i] = y
			case op == "bvor" && x.bit == 1:
				out[i] = wire{nil, 1}
			case op == "bvor":
				out[i] = y
			case op == "bvxor" && x.bit == 0:
				out[i] = y
			default:
				return nil, false
			}
		case x == y:
			if op == "bvxor" {
				out[i] = wire{nil, 0}
			} else {
				out[i] = x
			}
		default:
			return nil, false
		}
	}
	return fromWires(out), true
}

// wireShift: shifts by a constant amount.
func wireShift(op string, a *Term, s uint64) (*Term, bool) {
	w := a.sort.w
	aw := wiresOf(a)
	out := make([]wire, w)
	fill := wire{nil, 0}
	if op == "bvashr" {
		fill = aw[w-1]
		if s >= uint64(w) {
			s = uint64(w)
		}
	} else if s >= uint64(w) {
		return mkBV(0, w), true
	}
	n := int(s)
	for i := 0; i < w; i++ {
		switch op {
		case "bvshl":
			if i-n >= 0 {
				out[i] = aw[i-n]
			} else {
				out[i] = wire{nil, 0}
			}
		default:
			if i+n < w {
				out[i] = aw[i+n]
			} else {
				out[i] = fill
			}
		}
	}
	if op == "bvashr" && fill.src != nil && n > 0 {
		// repeated sign wire: not a slice; leave it to the solver
		return nil, false
	}
	return fromWires(out), true
}

// ---------------------------------------------------------------- self-test

type ttRecipe struct {
	op   string
	a, b int // operand indices into the recipe list
	p, q int
	c    uint64
}

// runTermTest builds random expressions twice (reference construction and
// wiring normal form) and compares their values under random assignments.
func runTermTest(rounds int, seed uint64) (int, string) {
	rnd := seed*2862933555777941757 + 3037000493
	next := func() uint64 {
		rnd ^= rnd << 13
		rnd ^= rnd >> 7
		rnd ^= rnd << 17
		return rnd
	}
	checked := 0
	for r := 0; r < rounds; r++ {
		// recipe over widths tracked on the fly
		var rec []ttRecipe
		var widths []int
		nv := 3
		for i := 0; i < nv; i++ {
			w := []int{8, 16, 32, 64}[next()%4]
			rec = append(rec, ttRecipe{op: "var", p: w, q: i})
			widths = append(widths, w)
		}
		n := 6 + int(next()%14)
		for len(rec) < nv+n {
			a := int(next() % uint64(len(rec)))
			wa := widths[a]
			switch next() % 12 {
			case 0: // extract
				lo := int(next() % uint64(wa))
				hi := lo + int(next()%uint64(wa-lo))
				rec = append(rec, ttRecipe{op: "extract", a: a, p: hi, q: lo})
				widths = append(widths, hi-lo+1)
			case 1: // zext
				if wa < 64 {
					w := wa + 1 + int(next()%uint64(64-wa))
					rec = append(rec, ttRecipe{op: "zext", a: a, p: w})
					widths = append(widths, w)
				}
			case 2:
				if wa < 64 {
					w := wa + 1 + int(next()%uint64(64-wa))
					rec = append(rec, ttRecipe{op: "sext", a: a, p: w})
					widths = append(widths, w)
				}
			case 3: // concat
				b := int(next() % uint64(len(rec)))
				if wa+widths[b] <= 64 {
					rec = append(rec, ttRecipe{op: "concat", a: a, b: b})
					widths = append(widths, wa+widths[b])
				}
			case 4, 5: // bitop with constant
				op := []string{"bvand", "bvor", "bvxor"}[next()%3]
				c := next()
				if next()%2 == 0 {
					c = maskW(int(next()%64)) << (next() % 64)
				}
				rec = append(rec, ttRecipe{op: op + "c", a: a, c: c})
				widths = append(widths, wa)
			case 6: // bitop with another term of the same width
				for b := range rec {
					if widths[b] == wa && next()%2 == 0 {
						op := []string{"bvand", "bvor", "bvxor", "bvadd", "bvsub"}[next()%5]
						rec = append(rec, ttRecipe{op: op, a: a, b: b})
						widths = append(widths, wa)
						break
					}
				}
			case 7, 8: // shift by constant
				op := []string{"bvshl", "bvlshr", "bvashr"}[next()%3]
				rec = append(rec, ttRecipe{op: op + "c", a: a, c: next() % uint64(wa+2)})
				widths = append(widths, wa)
			case 9:
				rec = append(rec, ttRecipe{op: "bvnot", a: a})
				widths = append(widths, wa)
			case 10:
				rec = append(rec, ttRecipe{op: "addc", a: a, c: next()})
				widths = append(widths, wa)
			case 11:
				for b := range rec {
					if widths[b] == wa && b != a {
						rec = append(rec, ttRecipe{op: "ite", a: a, b: b, p: int(next() % uint64(len(rec)))})
						widths = append(widths, wa)
						break
					}
				}
			}
		}
		build := func() []*Term {
			ts := make([]*Term, len(rec))
			for i, x := range rec {
				switch x.op {
				case "var":
					ts[i] = mkVar("tt"+string(rune('a'+x.q))+string(rune('0'+x.p/8)), bvSort(x.p))
				case "extract":
					ts[i] = mkExtract(x.p, x.q, ts[x.a])
				case "zext":
					ts[i] = mkZext(ts[x.a], x.p)
				case "sext":
					ts[i] = mkSext(ts[x.a], x.p)
				case "concat":
					ts[i] = mkConcat(ts[x.a], ts[x.b])
				case "bvandc", "bvorc", "bvxorc":
					ts[i] = mkBin(x.op[:len(x.op)-1], ts[x.a], mkBV(x.c, ts[x.a].sort.w))
				case "bvshlc", "bvlshrc", "bvashrc":
					ts[i] = mkBin(x.op[:len(x.op)-1], ts[x.a], mkBV(x.c, ts[x.a].sort.w))
				case "bvnot":
					ts[i] = mkBVNot(ts[x.a])
				case "addc":
					ts[i] = mkBin("bvadd", ts[x.a], mkBV(x.c, ts[x.a].sort.w))
				case "ite":
					c := mkEq(mkExtract(0, 0, ts[x.p]), mkBV(1, 1))
					ts[i] = mkIte(c, ts[x.a], ts[x.b])
				default:
					ts[i] = mkBin(x.op, ts[x.a], ts[x.b])
				}
			}
			return ts
		}
		noWires = true
		ref := build()
		noWires = false
		got := build()
		// path-sensitive simplification: learn facts that hold under one
		// assignment, rebuild, and compare under that assignment
		for k := 0; k < 4; k++ {
			asg := map[string]uint64{}
			for _, x := range rec[:nv] {
				v := next()
				if next()%3 == 0 {
					v &= maskW(int(next() % 20))
				}
				asg["tt"+string(rune('a'+x.q))+string(rune('0'+x.p/8))] = v
			}
			pathZero = map[*Term]uint64{}
			m1 := map[*Term]uint64{}
			var facts []string
			for f := 0; f < 4; f++ {
				i := int(next() % uint64(len(rec)))
				v, ok := evalTerm(ref[i], asg, m1)
				if !ok {
					continue
				}
				w := ref[i].sort.w
				var fact *Term
				switch next() % 3 {
				case 0: // t < K with K a power of two above v
					n := 0
					for x := v; x != 0; x >>= 1 {
						n++
					}
					if n >= w {
						continue
					}
					fact = mkCmp("bvult", got[i], mkBV(uint64(1)<<uint(n), w))
				case 1: // not (K <= t)
					if v > maskW(w)-3 || maskW(w) < 3 {
						continue
					}
					fact = mkNot(mkCmp("bvule", mkBV(v+1+next()%3, w), got[i]))
				default:
					fact = mkEq(got[i], mkBV(v, w))
				}
				if fact.isConst() {
					continue
				}
				learnZeroBits(fact)
				facts = append(facts, dumpTerm(fact, 4)+" [v="+itoa(int(v))+"]")
			}
			sens := build()
			m2 := map[*Term]uint64{}
			for i := range rec {
				v1, _ := evalTerm(ref[i], asg, m1)
				v2, ok2 := evalTerm(sens[i], asg, m2)
				checked++
				if !ok2 || v1 != v2 {
					pathZero = map[*Term]uint64{}
					msg := "path-sensitive mismatch at round " + itoa(r) + " node " + itoa(i) + " op " + rec[i].op + ": ref " + dumpTerm(ref[i], 4) + " got " + dumpTerm(sens[i], 4) + " v1=" + itoa(int(v1)) + " v2=" + itoa(int(v2))
					for _, f := range facts {
						msg += "\n   fact " + f
					}
					return checked, msg
				}
			}
			pathZero = map[*Term]uint64{}
		}
		for k := 0; k < 8; k++ {
			asg := map[string]uint64{}
			for _, x := range rec[:nv] {
				v := next()
				switch next() % 4 {
				case 0:
					v = 0
				case 1:
					v = ^uint64(0)
				}
				asg["tt"+string(rune('a'+x.q))+string(rune('0'+x.p/8))] = v
			}
			m1, m2 := map[*Term]uint64{}, map[*Term]uint64{}
			for i := range rec {
				v1, ok1 := evalTerm(ref[i], asg, m1)
				v2, ok2 := evalTerm(got[i], asg, m2)
				checked++
				if !ok1 || !ok2 || v1 != v2 || ref[i].sort != got[i].sort {
					return checked, "mismatch at round " + itoa(r) + " node " + itoa(i) + " op " + rec[i].op + ": ref " + ref[i].body() + " got " + got[i].body()
				}
			}
		}
	}
	return checked, ""
}

func itoa(i int) string {
	if i == 0 {
		return "0"
	}
	neg := i < 0
	if neg {
		i = -i
	}
	var b []byte
	for i > 0 {
		b = append([]byte{byte('0' + i%10)}, b...)
		i /= 10
	}
	if neg {
		b = append([]byte{'-'}, b...)
	}
	return string(b)
}
