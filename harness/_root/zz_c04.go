//go:build verif

package b6

import (
	"diagonal.works/b6/geometry"
	"diagonal.works/b6/search"
	"github.com/golang/geo/s2"
)

// C04 (filter layer): the iterators of the spatial queries (intersectsCells /
// Cap / Point / Polyline / MultiPolygon) yield exactly the candidates of the
// underlying index iterator for which the query's own intersection test is
// true, in order, under any mix of Next and Advance calls. The geometric test
// itself is replaced by an arbitrary truth value per candidate (it is C05's
// subject); candidates are symbolic strictly increasing values.

type vhMarkerFeature struct {
	ID
	Tags
	v int
}

func (vhMarkerFeature) References() []Reference   { return nil }
func (vhMarkerFeature) Reference(i int) Reference { return FeatureIDInvalid }

type vhCandidates struct {
	search.Index
	vals []int
}

func (c *vhCandidates) Feature(v search.Value) Feature  { return vhMarkerFeature{v: v.(int)} }
func (c *vhCandidates) ID(v search.Value) FeatureID     { return FeatureIDInvalid }

type vhCandidateIterator struct {
	vals []int
	i    int // index of the current value, -1 before the first
}

func (it *vhCandidateIterator) Next() bool {
	if it.i+1 >= len(it.vals) {
		it.i = len(it.vals)
		return false
	}
	it.i++
	return true
}

func (it *vhCandidateIterator) Advance(key search.Key) bool {
	if it.i < 0 {
		it.i = 0
	}
	for it.i < len(it.vals) && it.vals[it.i] < key.(int) {
		it.i++
	}
	return it.i < len(it.vals)
}

func (it *vhCandidateIterator) Value() search.Value { return it.vals[it.i] }
func (it *vhCandidateIterator) EstimateLength() int { return len(it.vals) }

var vhAccepts map[int]bool

func vhAccept(f Feature) bool {
	v := f.(vhMarkerFeature).v
	if a, ok := vhAccepts[v]; ok {
		return a
	}
	a := vBool("accept")
	vhAccepts[v] = a
	return a
}

//vh:steps=6000000 split=5 novalidate
//vh:assume[C04] the geometric intersection tests are replaced by an arbitrary truth value per candidate (they are C05's subject)
func VH_C04_SpatialIteratorsFilterExactly() {
	vhAccepts = map[int]bool{}
	vStub("diagonal.works/b6.cellsIntersectFeature", func(cells []s2.Cell, f Feature) bool { return vhAccept(f) })
	vStub("diagonal.works/b6.pointIntersectsFeature", func(p s2.Point, f Feature) bool { return vhAccept(f) })
	vStub("diagonal.works/b6.polylineIntersectsFeature", func(p *s2.Polyline, f Feature) bool { return vhAccept(f) })
	vStub("diagonal.works/b6.multiPolygonIntersectsFeature", func(p geometry.MultiPolygon, f Feature) bool { return vhAccept(f) })
	vStub("(*diagonal.works/b6.IntersectsCap).Matches", func(c *IntersectsCap, f Feature, w World) bool { return vhAccept(f) })
	n := vChoice("n", 4)
	vals := make([]int, n)
	for i := range vals {
		vals[i] = int(vU8("v"))
		if i > 0 {
			vAssume(vals[i] > vals[i-1])
		}
	}
	index := &vhCandidates{vals: vals}
	under := &vhCandidateIterator{vals: vals, i: -1}
	var it search.Iterator
	switch vChoice("kind", 5) {
	case 0:
		it = &intersectsCells{index: index, iterator: under}
	case 1:
		it = &intersectsCap{cap: &IntersectsCap{}, index: index, iterator: under}
	case 2:
		it = &intersectsPoint{index: index, iterator: under}
	case 3:
		it = &intersectsPolyline{index: index, iterator: under}
	default:
		it = &intersectsMultiPolygon{index: index, iterator: under}
	}
	started := false
	cur := 0
	nops := 2 + vTier()
	for op := 0; op < nops; op++ {
		isNext := vBool("next")
		k := 0
		var ret bool
		if isNext {
			ret = it.Next()
		} else {
			k = int(vU8("k"))
			ret = it.Advance(k)
		}
		vReach("op")
		// the accepted candidates the call may land on
		exists := false
		for _, x := range vals {
			b := vhAccept(vhMarkerFeature{v: x})
			if isNext {
				if started {
					b = vAnd(b, x > cur)
				}
			} else {
				b = vAnd(b, x >= k)
				if started {
					b = vAnd(b, x >= cur)
				}
			}
			exists = vOr(exists, b)
		}
		if !isNext && started {
			// Advance to a key at or before the current value stays: only
			// meaningful while the current value is itself accepted (it is,
			// having been returned)
		}
		vAssert(ret == exists, "the call reports whether an accepted candidate remains")
		if !ret {
			return
		}
		v := it.Value().(int)
		vAssert(vhAccept(vhMarkerFeature{v: v}), "only candidates the query's own test accepts are yielded")
		least := true
		for _, x := range vals {
			b := vhAccept(vhMarkerFeature{v: x})
			if isNext {
				if started {
					b = vAnd(b, x > cur)
				}
			} else {
				b = vAnd(b, x >= k)
				if started {
					b = vAnd(b, x >= cur)
				}
			}
			least = vAnd(least, vOr(!b, x >= v))
		}
		vAssert(least, "no accepted candidate is skipped")
		started, cur = true, v
	}
}
