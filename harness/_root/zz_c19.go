//go:build verif

package b6

import (
	pb "diagonal.works/b6/proto"
)

// C19: expressions survive the client/server wire format (in-memory proto
// form: ExpressionFromProto / ToProto; the protobuf wire encoding itself is
// the library's).
//
// The domain is "any tree the client can send", i.e. proto trees p. The
// harness builds p from a catalogue of shapes with symbolic scalars and
// positions, then e = FromProto(p), p' = ToProto(e), e' = FromProto(p') and
// compares e with e' (structure, names, positions) and ToProto(e') with p'.

func vhPos(p *pb.NodeProto, name string) *pb.NodeProto {
	p.Name = vStr(name+"name", vChoice(name+"namelen", 2))
	p.Begin = vI32(name + "begin")
	p.End = vI32(name + "end")
	return p
}

func vhLeaf(name string) *pb.NodeProto {
	lit := func(l *pb.LiteralNodeProto) *pb.NodeProto {
		return &pb.NodeProto{Node: &pb.NodeProto_Literal{Literal: l}}
	}
	var p *pb.NodeProto
	kind := 0
	if name == "n" || vTier() == 1 {
		kind = vChoice(name+"leaf", 8) // the root may be any leaf kind
	} else {
		// quick: children of a call or lambda are a symbol, an int, a nil or a tag
		kind = []int{0, 1, 6, 5}[vChoice(name+"leaf", 4)]
	}
	switch kind {
	case 0:
		p = &pb.NodeProto{Node: &pb.NodeProto_Symbol{Symbol: vStr(name+"sym", 1+vChoice(name+"symlen", 2))}}
	case 1:
		p = lit(&pb.LiteralNodeProto{Value: &pb.LiteralNodeProto_IntValue{IntValue: vI64(name + "int")}})
	case 2:
		p = lit(&pb.LiteralNodeProto{Value: &pb.LiteralNodeProto_BoolValue{BoolValue: vBool(name + "bool")}})
	case 3:
		p = lit(&pb.LiteralNodeProto{Value: &pb.LiteralNodeProto_StringValue{StringValue: vStr(name+"str", vChoice(name+"strlen", 3))}})
	case 4:
		ft := []pb.FeatureType{pb.FeatureType_FeatureTypePoint, pb.FeatureType_FeatureTypePath, pb.FeatureType_FeatureTypeArea, pb.FeatureType_FeatureTypeRelation, pb.FeatureType_FeatureTypeCollection, pb.FeatureType_FeatureTypeExpression, pb.FeatureType_FeatureTypeInvalid}
		p = lit(&pb.LiteralNodeProto{Value: &pb.LiteralNodeProto_FeatureIDValue{FeatureIDValue: &pb.FeatureIDProto{
			Type: ft[vChoice(name+"ftype", len(ft))], Namespace: vStr(name+"ns", vChoice(name+"nslen", 2)), Value: vU64(name + "idvalue")}}})
	case 5:
		p = lit(&pb.LiteralNodeProto{Value: &pb.LiteralNodeProto_TagValue{TagValue: &pb.TagProto{Key: vStr(name+"key", 1), Value: vStr(name+"tagvalue", vChoice(name+"tvlen", 2))}}})
	case 6:
		p = lit(&pb.LiteralNodeProto{Value: &pb.LiteralNodeProto_NilValue{NilValue: true}})
	default:
		var q *pb.QueryProto
		switch vChoice(name+"query", 4) {
		case 0:
			q = &pb.QueryProto{Query: &pb.QueryProto_All{All: &pb.AllQueryProto{}}}
		case 1:
			q = &pb.QueryProto{Query: &pb.QueryProto_Keyed{Keyed: vStr(name+"qkey", 2)}}
		case 2:
			q = &pb.QueryProto{Query: &pb.QueryProto_Tagged{Tagged: &pb.TagProto{Key: vStr(name+"qk", 1), Value: vStr(name+"qv", 1)}}}
		default:
			q = &pb.QueryProto{Query: &pb.QueryProto_Intersection{Intersection: &pb.QueriesProto{Queries: []*pb.QueryProto{
				{Query: &pb.QueryProto_Keyed{Keyed: vStr(name+"qkey", 1)}},
				{Query: &pb.QueryProto_Typed{Typed: &pb.TypedQueryProto{Type: pb.FeatureType_FeatureTypeArea, Query: &pb.QueryProto{Query: &pb.QueryProto_All{All: &pb.AllQueryProto{}}}}}},
			}}}}
		}
		p = lit(&pb.LiteralNodeProto{Value: &pb.LiteralNodeProto_QueryValue{QueryValue: q}})
	}
	return vhPos(p, name)
}

func vhTree(name string, depth int) *pb.NodeProto {
	if depth == 0 {
		return vhLeaf(name)
	}
	switch vChoice(name+"kind", 3) {
	case 0:
		return vhLeaf(name)
	case 1:
		n := vChoice(name+"nargs", 3)
		args := make([]*pb.NodeProto, n)
		for i := range args {
			args[i] = vhTree(name+"a", depth-1)
		}
		return vhPos(&pb.NodeProto{Node: &pb.NodeProto_Call{Call: &pb.CallNodeProto{Function: vhTree(name+"f", depth-1), Args: args, Pipelined: vBool(name + "pipelined")}}}, name)
	default:
		n := vChoice(name+"nparams", 3)
		params := make([]string, n)
		for i := range params {
			params[i] = vStr(name+"param", 1)
		}
		return vhPos(&pb.NodeProto{Node: &pb.NodeProto_Lambda_{Lambda_: &pb.LambdaNodeProto{Args: params, Node: vhTree(name+"b", depth-1)}}}, name)
	}
}

// vhSameExpression: structural comparison written here (not Expression.Equal,
// which ignores names and positions).
func vhSameExpression(a, b Expression, what string) {
	vAssert(a.Name == b.Name, what+": name survives")
	vAssert(a.Begin == b.Begin && a.End == b.End, what+": source positions survive")
	switch x := a.AnyExpression.(type) {
	case SymbolExpression:
		y, ok := b.AnyExpression.(SymbolExpression)
		vAssert(ok && x == y, what+": symbol")
	case IntExpression:
		y, ok := b.AnyExpression.(IntExpression)
		vAssert(ok && x == y, what+": int literal")
	case BoolExpression:
		y, ok := b.AnyExpression.(BoolExpression)
		vAssert(ok && x == y, what+": bool literal")
	case StringExpression:
		y, ok := b.AnyExpression.(StringExpression)
		vAssert(ok && x == y, what+": string literal")
	case FeatureIDExpression:
		y, ok := b.AnyExpression.(FeatureIDExpression)
		vAssert(ok && x == y, what+": feature id literal")
	case TagExpression:
		y, ok := b.AnyExpression.(TagExpression)
		vAssert(ok && x.Key == y.Key && x.Value.String() == y.Value.String(), what+": tag literal")
	case NilExpression:
		_, ok := b.AnyExpression.(NilExpression)
		vAssert(ok, what+": nil literal")
	case QueryExpression:
		y, ok := b.AnyExpression.(QueryExpression)
		vAssert(ok, what+": query literal")
		if ok {
			vAssert(x.Query.String() == y.Query.String(), what+": query")
		}
	case CallExpression:
		y, ok := b.AnyExpression.(CallExpression)
		vAssert(ok, what+": call")
		if ok {
			vAssert(x.Pipelined == y.Pipelined, what+": pipelined flag")
			vAssert(len(x.Args) == len(y.Args), what+": argument count")
			vhSameExpression(x.Function, y.Function, what)
			for i := range x.Args {
				if i < len(y.Args) {
					vhSameExpression(x.Args[i], y.Args[i], what)
				}
			}
		}
	case LambdaExpression:
		y, ok := b.AnyExpression.(LambdaExpression)
		vAssert(ok, what+": lambda")
		if ok {
			vAssert(len(x.Args) == len(y.Args), what+": parameter count")
			for i := range x.Args {
				if i < len(y.Args) {
					vAssert(x.Args[i] == y.Args[i], what+": parameter name")
				}
			}
			vhSameExpression(x.Expression, y.Expression, what)
		}
	default:
		vAssert(false, what+": unexpected expression kind")
	}
}

// vhCarriesPositions: the expression built from a proto node carries that
// node's name and source positions, at every level.
func vhCarriesPositions(e Expression, p *pb.NodeProto, what string) {
	vAssert(e.Name == p.Name, what+": name taken from the proto node")
	vAssert(e.Begin == int(p.Begin) && e.End == int(p.End), what+": source positions taken from the proto node")
	switch x := e.AnyExpression.(type) {
	case CallExpression:
		c := p.GetCall()
		vAssert(c != nil && len(c.Args) == len(x.Args), what+": call shape")
		if c != nil {
			vhCarriesPositions(x.Function, c.Function, what)
			for i := range x.Args {
				if i < len(c.Args) {
					vhCarriesPositions(x.Args[i], c.Args[i], what)
				}
			}
		}
	case LambdaExpression:
		l := p.GetLambda_()
		vAssert(l != nil, what+": lambda shape")
		if l != nil {
			vhCarriesPositions(x.Expression, l.Node, what)
		}
	}
}

//vh:steps=8000000 split=5 wall.thorough=3000
func VH_C19_ProtoRoundTrip() {
	p := vhTree("n", 1+vTier())
	e, err := ExpressionFromProto(p)
	vAssert(err == nil, "a well-formed tree converts from proto")
	vhCarriesPositions(e, p, "from proto")
	p1, err := e.ToProto()
	vAssert(err == nil, "the expression converts to proto")
	e1, err := ExpressionFromProto(p1)
	vAssert(err == nil, "and back")
	vReach("roundtrip")
	vhCarriesPositions(e, p1, "to proto")
	vhSameExpression(e, e1, "round trip")
	// converting a second time changes nothing
	p2, err := e1.ToProto()
	vAssert(err == nil, "second conversion")
	e2, err := ExpressionFromProto(p2)
	vAssert(err == nil, "second conversion back")
	vhSameExpression(e1, e2, "second round trip")
}
