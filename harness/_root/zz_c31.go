//go:build verif

package b6

// C31: feature IDs survive their textual and wire encodings; ID order is a
// strict total order.

var vhC31Namespaces = []Namespace{
	NamespaceOSMNode, // contains '/'
	NamespaceOSMWay,
	NamespaceGBCodePoint,
	"diagonal.works/ns/test/deep", // several '/'
	"x",
}

// vhC31Type is a valid feature type (FeatureTypeInvalid sits in the middle of
// the enumeration and is not the type of any feature ID).
func vhC31Type(name string) FeatureType {
	ts := []FeatureType{FeatureTypePoint, FeatureTypePath, FeatureTypeArea, FeatureTypeRelation, FeatureTypeCollection, FeatureTypeExpression}
	return ts[vChoice(name, len(ts))]
}

// Text: FeatureID.String and FeatureIDFromString (with and without the
// leading '/'), any type, namespaces with and without '/', any 64-bit value
// (the decimal digits are solver terms; the digit count is a decision).
//
//vh:steps=4000000 split=3
func VH_C31_String() {
	id := FeatureID{Type: vhC31Type("type"), Namespace: vhC31Namespaces[vChoice("ns", len(vhC31Namespaces))], Value: vU64("value")}
	if vTier() == 0 {
		// quick: 1-, 10-, 19- and 20-digit values (all lengths in the thorough tier)
		v := id.Value
		vAssume(v < 10 || (v >= 1000000000 && v < 10000000000) || v >= 1000000000000000000)
	}
	s := id.String()
	vReach("string")
	back := FeatureIDFromString(s)
	vAssert(back.Type == id.Type, "type survives String/FromString")
	vAssert(back.Namespace == id.Namespace, "namespace survives String/FromString")
	vAssert(back.Value == id.Value, "value survives String/FromString")
	back2 := FeatureIDFromString("/" + s)
	vAssert(back2 == back, "a leading '/' is accepted")
}

// Protobuf: NewProtoFromFeatureID / NewFeatureIDFromProto.
func VH_C31_Proto() {
	id := FeatureID{Type: vhC31Type("type"), Namespace: Namespace(vStr("ns", vChoice("nslen", 3))), Value: vU64("value")}
	p := NewProtoFromFeatureID(id)
	back := NewFeatureIDFromProto(p)
	vReach("proto")
	vAssert(back.Type == id.Type, "type survives the protobuf form")
	vAssert(back.Namespace == id.Namespace, "namespace survives the protobuf form")
	vAssert(back.Value == id.Value, "value survives the protobuf form")
	vAssert(NewFeatureIDFromProto(nil) == FeatureIDInvalid, "nil proto is the invalid id")
}

func vhC31ID(name string) FeatureID {
	t := FeatureType(vU8(name+"type") & 7)
	return FeatureID{Type: t, Namespace: Namespace(vStr(name+"ns", vChoice(name+"nslen", 3))), Value: vU64(name + "value")}
}

// FeatureID.Less is a strict total order.
//
//vh:steps=4000000
func VH_C31_LessIsStrictTotalOrder() {
	a, b, c := vhC31ID("a"), vhC31ID("b"), vhC31ID("c")
	vReach("less")
	vAssert(!a.Less(a), "irreflexive")
	ab, ba := a.Less(b), b.Less(a)
	vAssert(!(ab && ba), "asymmetric")
	if !ab && !ba {
		vAssert(a == b, "total: incomparable ids are equal")
	}
	if ab && b.Less(c) {
		vAssert(a.Less(c), "transitive")
	}
}
