//go:build verif

package b6

// C39: tag lists behave as ordered maps.

type vhTagModel struct {
	keys []string
	vals []int // marker index
}

func vhMarker(i int) Expression {
	return NewStringExpression(string(rune('A' + i)))
}

func (m *vhTagModel) find(k string) int {
	for i := range m.keys {
		if m.keys[i] == k {
			return i
		}
	}
	return -1
}

func vhCheckTags(t Tags, m *vhTagModel, what string) {
	vAssert(len(t) == len(m.keys), what+": length")
	for i := range t {
		vAssert(t[i].Key == m.keys[i], what+": key order")
		vAssert(t[i].Value.AnyExpression == vhMarker(m.vals[i]).AnyExpression, what+": value")
	}
}

func vhDistinctKeys(n int, name string) []string {
	ks := make([]string, n)
	for i := range ks {
		ks[i] = vStr(name, 1)
		for j := 0; j < i; j++ {
			vAssume(ks[i] != ks[j])
		}
	}
	return ks
}

// One operation from an arbitrary list with distinct keys (inductive step:
// every operation keeps keys distinct, so one step from any such list covers
// histories of any length up to the size bound).
//
//vh:steps=3000000
func VH_C39_OneOperation() {
	n := vChoice("n", 4+vTier()) // 0..3 (quick) / 0..4 tags
	ks := vhDistinctKeys(n, "k")
	var t Tags
	m := &vhTagModel{}
	for i := 0; i < n; i++ {
		t = append(t, Tag{Key: ks[i], Value: vhMarker(i)})
		m.keys = append(m.keys, ks[i])
		m.vals = append(m.vals, i)
	}
	// exact-capacity and spare-capacity backing arrays both occur in practice
	if vBool("spare") {
		t2 := make(Tags, len(t), len(t)+2)
		copy(t2, t)
		t = t2
	}
	key := vStr("key", 1)
	switch vChoice("op", 7) {
	case 0: // Get
		vReach("get")
		got := t.Get(key)
		if i := m.find(key); i >= 0 {
			vAssert(got.Key == key, "Get: key")
			vAssert(got.Value.AnyExpression == vhMarker(m.vals[i]).AnyExpression, "Get: value of a present key")
		} else {
			vAssert(!got.IsValid(), "Get: absent key gives an invalid tag")
		}
		fb := t.TagOrFallback(key, "fb")
		if i := m.find(key); i >= 0 {
			vAssert(fb.Value.AnyExpression == vhMarker(m.vals[i]).AnyExpression, "TagOrFallback: present key")
		} else {
			vAssert(fb.Key == key && fb.Value.AnyExpression == NewStringExpression("fb").AnyExpression, "TagOrFallback: fallback")
		}
		vhCheckTags(t, m, "Get leaves the list alone")
	case 1: // AddTag of a new key
		vAssume(m.find(key) < 0)
		vReach("add")
		t.AddTag(Tag{Key: key, Value: vhMarker(9)})
		m.keys = append(m.keys, key)
		m.vals = append(m.vals, 9)
		vhCheckTags(t, m, "AddTag")
	case 2: // ModifyOrAddTag
		vReach("modify")
		modified, _ := t.ModifyOrAddTag(Tag{Key: key, Value: vhMarker(9)})
		if i := m.find(key); i >= 0 {
			vAssert(modified, "ModifyOrAddTag reports a modification")
			m.vals[i] = 9
		} else {
			vAssert(!modified, "ModifyOrAddTag reports an addition")
			m.keys = append(m.keys, key)
			m.vals = append(m.vals, 9)
		}
		vhCheckTags(t, m, "ModifyOrAddTag")
	case 3: // RemoveTag
		vReach("remove")
		t.RemoveTag(key)
		if i := m.find(key); i >= 0 {
			m.keys = append(append([]string{}, m.keys[:i]...), m.keys[i+1:]...)
			m.vals = append(append([]int{}, m.vals[:i]...), m.vals[i+1:]...)
		}
		vhCheckTags(t, m, "RemoveTag")
	case 4: // RemoveTags
		nk := 1 + vChoice("nkeys", 3)
		keys := []string{key}
		for len(keys) < nk {
			keys = append(keys, vStr("rk", 1))
		}
		vReach("removetags")
		t.RemoveTags(keys)
		var nkeys []string
		var nvals []int
		for i := range m.keys {
			drop := false
			for _, k := range keys {
				if k == m.keys[i] {
					drop = true
				}
			}
			if !drop {
				nkeys = append(nkeys, m.keys[i])
				nvals = append(nvals, m.vals[i])
			}
		}
		m.keys, m.vals = nkeys, nvals
		vhCheckTags(t, m, "RemoveTags")
	case 5: // MergeFrom
		on := vChoice("on", 4)
		oks := vhDistinctKeys(on, "ok")
		var other Tags
		m2 := &vhTagModel{}
		for i := 0; i < on; i++ {
			other = append(other, Tag{Key: oks[i], Value: vhMarker(10 + i)})
			m2.keys = append(m2.keys, oks[i])
			m2.vals = append(m2.vals, 10+i)
		}
		vReach("merge")
		t.MergeFrom(other)
		vhCheckTags(t, m2, "MergeFrom replaces the list with the other's")
		vhCheckTags(other, m2, "MergeFrom leaves the other list alone")
	case 6: // Clone
		vReach("clone")
		c := t.Clone()
		vhCheckTags(c, m, "Clone equals the original")
		c.ModifyOrAddTag(Tag{Key: key, Value: vhMarker(9)})
		c.RemoveTag(vStr("ck", 1))
		vhCheckTags(t, m, "changing a clone leaves the original alone")
		c2 := t.Clone()
		t.ModifyOrAddTag(Tag{Key: key, Value: vhMarker(8)})
		vhCheckTags(c2, m, "changing the original leaves a clone alone")
		// both sides grow: an append to one must not land in the other's storage
		// (a list emptied in place keeps its capacity)
		t3 := t[0:0]
		c3 := t3.Clone()
		c3.AddTag(Tag{Key: "zz1", Value: vhMarker(7)})
		t3.AddTag(Tag{Key: "zz2", Value: vhMarker(6)})
		vAssert(len(c3) == 1 && c3[0].Key == "zz1" && c3[0].Value.AnyExpression == vhMarker(7).AnyExpression, "appending to the original leaves a clone of an emptied list alone")
		vAssert(len(t3) == 1 && t3[0].Key == "zz2", "appending to a clone leaves the emptied original alone")
	}
}
