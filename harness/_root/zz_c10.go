//go:build verif

package b6

// C10: tile ids up to zoom 29.
func VH_C10_TileID() {
	z := uint(vU8("z"))
	vAssume(z <= 29)
	x := uint(vU64("x"))
	y := uint(vU64("y"))
	vAssume(x < 1<<z && y < 1<<z)
	id := TileIDFromXYZ(x, y, z)
	x2, y2, z2 := id.ToXYZ()
	vReach("tile")
	vObsU64("id", uint64(id))
	vAssert(z2 == z, "zoom survives")
	vAssert(x2 == x, "x survives")
	vAssert(y2 == y, "y survives")
	// injective over the domain
	z3 := uint(vU8("z3"))
	vAssume(z3 <= 29)
	x3 := uint(vU64("x3"))
	y3 := uint(vU64("y3"))
	vAssume(x3 < 1<<z3 && y3 < 1<<z3)
	if x3 != x || y3 != y || z3 != z {
		vAssert(TileIDFromXYZ(x3, y3, z3) != id, "distinct tiles get distinct ids")
	}
	t := id.ToTile()
	vAssert(t.ToID() == id, "Tile.ToID(TileID.ToTile()) == id")
}

// C10: GB postcode ids: 5 to 7 upper-case letters/digits.
//
//vh:steps=4000000 split=5
func VH_C10_Postcode() {
	n := 5 + vChoice("len", 3)
	if vTier() == 0 {
		vAssume(n != 6)
	}
	pc := vStr("c", n)
	for i := 0; i < n; i++ {
		c := pc[i]
		vAssume((c >= '0' && c <= '9') || (c >= 'A' && c <= 'Z'))
	}
	id := PointIDFromGBPostcode(pc)
	vReach("postcode")
	vAssert(id != FeatureIDInvalid, "a well-formed postcode gets an id")
	vAssert(id.Namespace == NamespaceGBCodePoint && id.Type == FeatureTypePoint, "namespace and type")
	back, ok := PostcodeFromPointID(id)
	vAssert(ok, "the id decodes")
	vAssert(back == pc, "postcode survives (so distinct postcodes have distinct ids)")
}

// C10: lower-case input is folded to the same id as upper case.
//
//vh:steps=4000000
func VH_C10_PostcodeLowerCase() {
	n := 5 + vChoice("len", 1+2*vTier())
	pc := vStr("c", n)
	up := make([]byte, n)
	for i := 0; i < n; i++ {
		c := pc[i]
		vAssume((c >= '0' && c <= '9') || (c >= 'a' && c <= 'z'))
		if c >= 'a' {
			up[i] = c - 32
		} else {
			up[i] = c
		}
	}
	id := PointIDFromGBPostcode(pc)
	vReach("postcode-lower")
	back, ok := PostcodeFromPointID(id)
	vAssert(ok, "the id decodes")
	vAssert(back == string(up), "postcode survives in upper case")
}

// C10: UK ONS boundary codes: a letter, 8 digits, year 1900..2155. The letter,
// the year and the feature type are symbolic; the 8-digit number is drawn from
// representative digit strings (the decimal print/parse of the standard
// library is executed natively on them: a fully symbolic 8-digit round trip
// through Atoi and %08d timed out in z3 and cvc5 and is outside the claim).
//
//vh:steps=4000000
func VH_C10_ONSCode() {
	digits := []string{"00000000", "00000001", "00000010", "09999999", "10000000", "12345678", "99999999", "42949672"}
	code := vStr("c", 1) + digits[vChoice("digits", len(digits))]
	vAssume(code[0] >= 'A' && code[0] <= 'Z')
	year := 1900 + int(vU8("year"))
	t := FeatureType(vChoice("type", 4))
	id := FeatureIDFromUKONSCode(code, year, t)
	vReach("ons")
	vAssert(id != FeatureIDInvalid, "a well-formed code gets an id")
	vAssert(id.Type == t && id.Namespace == NamespaceUKONSBoundaries, "type and namespace")
	back, y, ok := UKONSCodeFromFeatureID(id)
	vAssert(ok, "the id decodes")
	vAssert(y == year, "year survives")
	vAssert(back == code, "code survives")
	// a different letter or year gives a different id
	other := vStr("o", 1) + code[1:]
	vAssume(other[0] >= 'A' && other[0] <= 'Z')
	year2 := 1900 + int(vU8("year2"))
	if other[0] != code[0] || year2 != year {
		vAssert(FeatureIDFromUKONSCode(other, year2, t) != id, "distinct letter/year give distinct ids")
	}
}
