//go:build verif

package b6

// C03/C17: results of several indices are merged into one strictly increasing,
// duplicate-free stream (mergedFeatures).

type vhIDFeatures struct {
	ids []FeatureID
	i   int
}

func (f *vhIDFeatures) Next() bool {
	f.i++
	return f.i <= len(f.ids)
}
func (f *vhIDFeatures) Feature() Feature     { return nil }
func (f *vhIDFeatures) FeatureID() FeatureID { return f.ids[f.i-1] }

//vh:steps=4000000 split=4
func VH_C03_MergedFeatures() {
	k := 2 + vChoice("k", 2)
	var all []uint64
	its := make([]Features, k)
	for j := 0; j < k; j++ {
		n := vChoice("n", 3+vTier())
		ids := make([]FeatureID, n)
		for i := range ids {
			v := uint64(vU8("v"))
			if i > 0 {
				vAssume(v > ids[i-1].Value)
			}
			ids[i] = FeatureID{Type: FeatureTypePath, Namespace: "ns", Value: v}
			all = append(all, v)
		}
		its[j] = &vhIDFeatures{ids: ids}
	}
	m := MergeFeatures(its...)
	var got []uint64
	for m.Next() {
		got = append(got, m.FeatureID().Value)
		vAssert(len(got) <= len(all)+1, "merged stream is finite")
	}
	vReach("merged")
	for i := range got {
		if i > 0 {
			vAssert(got[i-1] < got[i], "merged results are strictly increasing (no duplicates)")
		}
		in := false
		for _, v := range all {
			in = vOr(in, v == got[i])
		}
		vAssert(in, "merged results come from the inputs")
	}
	for _, v := range all {
		in := false
		for _, g := range got {
			in = vOr(in, v == g)
		}
		vAssert(in, "every input result appears in the merged stream")
	}
}
