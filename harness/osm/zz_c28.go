//go:build verif

package osm

import (
	"context"
	"errors"
	"io"
	"sync"
	"time"

	pb "diagonal.works/b6/osm/proto"
	"google.golang.org/protobuf/proto"
)

// C28 (PBF reading): ReadPBFWithOptions with a failing callback, under every
// schedule (within the context bound) of the blob reader and the workers.
//
// The protocol is executed for real: ReadPBFWithOptions, readBlobs, the blob
// channel, the "Done" blobs, the cancellation. What a blob holds is cut out:
// the file is a reader that yields n framed blobs, proto.Unmarshal of a blob
// header/blob yields an OSMData blob carrying its number, and
// readOSMDataBlob emits one node per blob. context.WithCancel is the small
// model also used for the other C28 harnesses.

type vhCtx struct {
	mu       sync.Mutex // as in the real context: cancel and Err are synchronised (and so are scheduling points)
	done     chan struct{}
	canceled bool
}

var vhErrCanceled = errors.New("context canceled")

func (c *vhCtx) Deadline() (time.Time, bool) { return time.Time{}, false }
func (c *vhCtx) Done() <-chan struct{}       { return c.done }
func (c *vhCtx) Err() error {
	c.mu.Lock()
	defer c.mu.Unlock()
	if c.canceled {
		return vhErrCanceled
	}
	return nil
}
func (c *vhCtx) Value(key interface{}) interface{} { return nil }
func (c *vhCtx) cancel() {
	c.mu.Lock()
	defer c.mu.Unlock()
	if !c.canceled {
		c.canceled = true
		close(c.done)
	}
}

// vhBlobFile yields n blobs framed as readBlobs expects them: a 4-byte
// big-endian header length (1), one header byte, one blob byte.
type vhBlobFile struct {
	n, pos int
}

func (f *vhBlobFile) Read(p []byte) (int, error) {
	if f.pos >= f.n*6 {
		return 0, io.EOF
	}
	i := 0
	for i < len(p) && f.pos < f.n*6 {
		switch f.pos % 6 {
		case 3:
			p[i] = 1
		case 5:
			p[i] = byte(f.pos / 6)
		default:
			p[i] = 0
		}
		i++
		f.pos++
	}
	return i, nil
}

var vhErrCallback = errors.New("callback failed")

//vh:steps=8000000 concurrent sched=400 preempt=1 preempt.thorough=2 paths.thorough=3000000 wall.thorough=1500 novalidate
func VH_C28_ReadPBF() {
	vStub("context.WithCancel", func(parent context.Context) (context.Context, context.CancelFunc) {
		c := &vhCtx{done: make(chan struct{})}
		return c, c.cancel
	})
	vStub("google.golang.org/protobuf/proto.Unmarshal", func(b []byte, m interface{}) error {
		switch m := m.(type) {
		case *pb.BlobHeader:
			m.Type = proto.String(blobTypeOSMData)
			m.Datasize = proto.Int32(1)
		case *pb.Blob:
			m.Raw = []byte{b[0]}
		}
		return nil
	})
	vStub("diagonal.works/b6/osm.readOSMDataBlob", func(b *blob, emit Emit, options ReadOptions) error {
		return emit(&Node{ID: NodeID(b.Blob.Raw[0])})
	})
	n := 3 + vTier()
	cores := 1 + vChoice("cores", 2)
	failAt := vChoice("failat", n+1)
	sticky := vBool("sticky")
	calls := 0
	failed := false
	err := ReadPBFWithOptions(&vhBlobFile{n: n}, func(e Element, g int) error {
		k := calls
		calls++
		vAssert(g >= 0 && g < cores, "the goroutine number passed to the callback is in range")
		if k == failAt || (sticky && failed) {
			failed = true
			return vhErrCallback
		}
		return nil
	}, ReadOptions{Cores: cores})
	vReach("returned")
	if failed {
		vAssert(err != nil, "an error from the callback is reported, never success")
	} else {
		vAssert(err == nil, "no error without a failing callback")
		vAssert(calls == n, "every blob is read")
	}
}
