//go:build verif

package osm

import (
	"bytes"
	"compress/zlib"
	"io"
	"math"

	pb "diagonal.works/b6/osm/proto"
)

// C27: OSM PBF files read back what was written.
//
// The writer (NewWriterWithOptions, WriteElement, WriteNode, WriteWay,
// WriteRelation, lookupString, Flush, resetBlock) and the reader
// (readRawOSMDataBlob, readPrimitiveGroup, readDenseNodes, fillWay,
// fillRelation, fillTags, the angle codec) are executed for real. What lies
// between them in a file - protobuf wire encoding of the block, zlib, the
// blob framing - is cut out: proto.Marshal of a PrimitiveBlock keeps a deep
// snapshot of the block as the writer holds it at that moment and returns a
// ticket; writeBlob keeps the tickets of data blobs in order; proto.Unmarshal
// hands the snapshot back. The writer reuses its group, dense arrays and
// string table across blocks, so the snapshot is what the bytes would hold.
// Run natively (counterexample replay, translator validation) the stubs are
// inert and the same harness writes a real file and reads it with ReadPBF.

type vhPBF struct {
	blocks  []*pb.PrimitiveBlock
	blobs   [][]byte
	stubbed bool         // set once a stub has run: false when the harness runs natively
	file    bytes.Buffer // natively, the real file
}

func (p *vhPBF) install() {
	vStub("compress/zlib.NewWriterLevel", func(w io.Writer, level int) (*zlib.Writer, error) { return nil, nil })
	vStub("google.golang.org/protobuf/proto.Marshal", func(m interface{}) ([]byte, error) {
		if b, ok := m.(*pb.PrimitiveBlock); ok {
			p.blocks = append(p.blocks, vhSnapshot(b))
			return []byte{byte(len(p.blocks) - 1)}, nil
		}
		return nil, nil
	})
	vStub("(*diagonal.works/b6/osm.Writer).writeBlob", func(w *Writer, blobType string, data []byte) error {
		p.stubbed = true
		if blobType == blobTypeOSMData {
			p.blobs = append(p.blobs, data)
		}
		return nil
	})
	vStub("google.golang.org/protobuf/proto.Unmarshal", func(b []byte, m interface{}) error {
		s := p.blocks[b[0]]
		out := m.(*pb.PrimitiveBlock)
		out.Stringtable = s.Stringtable
		out.Primitivegroup = s.Primitivegroup
		out.Granularity = s.Granularity
		out.LatOffset = s.LatOffset
		out.LonOffset = s.LonOffset
		out.DateGranularity = s.DateGranularity
		return nil
	})
}

func vhSnapshot(b *pb.PrimitiveBlock) *pb.PrimitiveBlock {
	s := &pb.PrimitiveBlock{Granularity: b.Granularity, LatOffset: b.LatOffset, LonOffset: b.LonOffset, DateGranularity: b.DateGranularity}
	if b.Stringtable != nil {
		s.Stringtable = &pb.StringTable{S: append([][]byte{}, b.Stringtable.S...)}
	}
	for _, g := range b.Primitivegroup {
		c := &pb.PrimitiveGroup{}
		c.Nodes = append([]*pb.Node{}, g.Nodes...)
		if g.Dense != nil {
			c.Dense = &pb.DenseNodes{
				Id:       append([]int64{}, g.Dense.Id...),
				Lat:      append([]int64{}, g.Dense.Lat...),
				Lon:      append([]int64{}, g.Dense.Lon...),
				KeysVals: append([]int32{}, g.Dense.KeysVals...),
			}
		}
		c.Ways = append([]*pb.Way{}, g.Ways...)
		c.Relations = append([]*pb.Relation{}, g.Relations...)
		s.Primitivegroup = append(s.Primitivegroup, c)
	}
	return s
}

// read replays the data blobs in file order through the block reader, as one
// reader goroutine does.
func (p *vhPBF) read() []Element {
	var out []Element
	emit := func(e Element) error {
		switch e := e.(type) { // the reader reuses its element
		case *Node:
			c := e.Clone()
			out = append(out, &c)
		case *Way:
			c := e.Clone()
			out = append(out, &c)
		case *Relation:
			c := e.Clone()
			out = append(out, &c)
		}
		return nil
	}
	if !p.stubbed {
		// native run (replay of a counterexample, translator validation):
		// nothing is cut out, the real file is read by the real reader
		vAssert(ReadPBF(bytes.NewReader(p.file.Bytes()), emit) == nil, "a written file reads back without error")
		return out
	}
	for _, blob := range p.blobs {
		vAssert(readRawOSMDataBlob(blob, emit, ReadOptions{}) == nil, "a written block reads back without error")
	}
	return out
}

var vhTagSets = []Tags{
	nil,
	{{Key: "highway", Value: "path"}},
	{{Key: "name", Value: ""}, {Key: "", Value: "name"}, {Key: "highway", Value: "highway"}},
}

var vhLocations = []LatLng{
	{Lat: 51.5357237, Lng: -0.1253052},
	{Lat: -33.8567844, Lng: 151.2152967},
	{Lat: 51.5357237, Lng: -0.1253052},
	{Lat: 0, Lng: -179.9999999},
	{Lat: 89.9999999, Lng: 0.0000001},
}

var vhRoles = []string{"outer", "", "outer", "inner"}

func vhSameTags(a, b Tags) bool {
	if len(a) != len(b) {
		return false
	}
	for i := range a {
		if a[i] != b[i] {
			return false
		}
	}
	return true
}

// vhElement is the i-th element written. With rich, every element picks its
// tag set (3), way length (0..3) and member count (0, 1 or 3) and types (3 each) by
// decision; otherwise tag sets (2), way length (0 or 3), member count (0, 1, 3)
// by decision and member types by position.
func vhElement(i int, kinds int, rich bool) Element {
	var tags Tags
	if rich {
		tags = vhTagSets[vChoice("tags", len(vhTagSets))]
	} else if vBool("tagged") {
		tags = vhTagSets[2]
	}
	switch vChoice("kind", kinds) {
	case 0:
		return &Node{ID: NodeID(vU64("node")), Location: vhLocations[i%len(vhLocations)], Tags: tags}
	case 1:
		w := &Way{ID: WayID(vU64("way")), Tags: tags}
		n := 0
		if rich {
			n = vChoice("refs", 4)
		} else if vBool("hasrefs") {
			n = 3
		}
		for j := 0; j < n; j++ {
			w.Nodes = append(w.Nodes, NodeID(vU64("ref")))
		}
		return w
	default:
		r := &Relation{ID: RelationID(vU64("relation")), Tags: tags}
		n := []int{0, 1, 3}[vChoice("members", 3)] // 3: the delta chain is longer than its first step
		types := []ElementType{ElementTypeNode, ElementTypeWay, ElementTypeRelation}
		for j := 0; j < n; j++ {
			t := types[(i+j)%3]
			if rich {
				t = types[vChoice("mtype", 3)]
			}
			r.Members = append(r.Members, Member{Type: t, ID: AnyID(vU64("member")), Role: vhRoles[(i+j)%len(vhRoles)]})
		}
		return r
	}
}

func vhCompare(written []Element, read []Element) {
	vAssert(len(read) == len(written), "as many elements are read as were written")
	for i := range written {
		if i >= len(read) {
			break
		}
		switch w := written[i].(type) {
		case *Node:
			r, ok := read[i].(*Node)
			vAssert(ok, "elements come back in order with their type")
			if ok {
				vAssert(r.ID == w.ID, "node id")
				vAssert(vhSameTags(r.Tags, w.Tags), "node tags")
				vAssert(math.Abs(r.Location.Lat-w.Location.Lat) <= 1.0000001e-7 && math.Abs(r.Location.Lng-w.Location.Lng) <= 1.0000001e-7, "node coordinates within one granularity step")
			}
		case *Way:
			r, ok := read[i].(*Way)
			vAssert(ok, "elements come back in order with their type")
			if ok {
				vAssert(r.ID == w.ID, "way id")
				vAssert(vhSameTags(r.Tags, w.Tags), "way tags")
				vAssert(len(r.Nodes) == len(w.Nodes), "way node count")
				for j := range w.Nodes {
					if j < len(r.Nodes) {
						vAssert(r.Nodes[j] == w.Nodes[j], "way nodes in order")
					}
				}
			}
		case *Relation:
			r, ok := read[i].(*Relation)
			vAssert(ok, "elements come back in order with their type")
			if ok {
				vAssert(r.ID == w.ID, "relation id")
				vAssert(vhSameTags(r.Tags, w.Tags), "relation tags")
				vAssert(len(r.Members) == len(w.Members), "relation member count")
				for j := range w.Members {
					if j < len(r.Members) {
						vAssert(vAll(r.Members[j].ID == w.Members[j].ID, r.Members[j].Type == w.Members[j].Type, r.Members[j].Role == w.Members[j].Role), "relation members, types and roles in order")
					}
				}
			}
		}
	}
}

// Any sequence of 1..3 (thorough 4) nodes, ways and relations in any
// interleaving of types; 64-bit ids, way nodes and member ids symbolic (so
// negative and large values and every delta between neighbours are covered);
// tags incl. empty and repeated strings (see vhElement for what is decided
// per element; thorough sequences of up to 3 are "rich").
//
//vh:steps=8000000 split=6
func VH_C27_Sequences() {
	p := &vhPBF{}
	p.install()
	w, err := NewWriterWithOptions(&p.file, &WriterOptions{})
	vAssert(err == nil, "NewWriter")
	n := 1 + vChoice("elements", 3+vTier())
	rich := vTier() == 1 && n <= 3
	var written []Element
	for i := 0; i < n; i++ {
		e := vhElement(i, 3, rich)
		written = append(written, e)
		vAssert(w.WriteElement(e) == nil, "WriteElement")
	}
	vAssert(w.Flush() == nil, "Flush")
	vReach("written")
	vhCompare(written, p.read())
}

// More elements than one block holds: elementsPerGroup-1 plain nodes, then
// 1..2 (thorough 3) more nodes or ways, so that a block fills up exactly, is
// followed by a partial block, or changes type at the boundary.
//
//vh:steps=60000000 split=3
func VH_C27_BlockBoundary() {
	p := &vhPBF{}
	p.install()
	w, err := NewWriterWithOptions(&p.file, &WriterOptions{})
	vAssert(err == nil, "NewWriter")
	var written []Element
	for i := 0; i < elementsPerGroup-1; i++ {
		e := &Node{ID: NodeID(int64(i)*3 - 1000), Location: vhLocations[i%len(vhLocations)]}
		if i%1000 == 0 {
			e.Tags = vhTagSets[2]
		}
		written = append(written, e)
		vAssert(w.WriteNode(e) == nil, "WriteNode")
	}
	n := 1 + vChoice("elements", 2+vTier())
	for i := 0; i < n; i++ {
		e := vhElement(i, 2, false)
		written = append(written, e)
		vAssert(w.WriteElement(e) == nil, "WriteElement")
	}
	vAssert(w.Flush() == nil, "Flush")
	vReach("written")
	vhCompare(written, p.read())
}
