//go:build verif

package search

import (
	"github.com/golang/geo/s2"
)

// C04 (token layer): the cell-covering index is a sound pre-filter and invents
// nothing beyond it. For every feature covering cell c and every query
// covering cell q (any face, any levels 0..16 - the coverers' MaxLevel - and
// any position: the 64-bit ids are solver variables), the tokens
// TokensForCovering gives the feature and the tokens of the query that
// RewriteSpatialQuery compiles share a token exactly when c and q intersect
// (one contains the other).
//
// cellIDToToken / ancestorCellIDToToken format the id as hex text
// (CellID.ToToken); they are replaced by injective constructors (prefix + the
// 8 bytes of the id), i.e. the formatting is trusted to be injective.

func vhCellTok(prefix string, id s2.CellID) string {
	b := make([]byte, 8)
	for i := range b {
		b[i] = byte(uint64(id) >> (8 * uint(i)))
	}
	return prefix + string(b)
}

func vhS2Token(id s2.CellID) string       { return vhCellTok(s2CellIDTokenPrefix, id) }
func vhAncestorToken(id s2.CellID) string { return vhCellTok(s2AncestorCellIDTokenPrefix, id) }

// vhCell is an arbitrary valid cell id of the given level.
func vhCell(name string, level int) s2.CellID {
	raw := vU64(name)
	face := raw >> 61
	vAssume(face < 6)
	lsb := uint64(1) << uint(2*(30-level))
	return s2.CellID((raw &^ (lsb*2 - 1)) | lsb)
}

// vhContains: cell a (of level la) contains cell b (of level lb).
func vhContains(a s2.CellID, la int, b s2.CellID, lb int) bool {
	if la > lb {
		return false
	}
	sh := uint(2*(30-la) + 1)
	return uint64(a)>>sh == uint64(b)>>sh
}

//vh:steps=4000000 split=4 novalidate
//vh:assume[C04] cell-id token formatting (CellID.ToToken hex text) is injective; RegionCoverer soundness (the covering contains the geometry) is trusted
func VH_C04_TokensMatchExactlyIntersectingCells() {
	vStub("diagonal.works/b6/search.cellIDToToken", vhS2Token)
	vStub("diagonal.works/b6/search.ancestorCellIDToToken", vhAncestorToken)
	lc, lq := vChoice("featurelevel", MaxIndexedCellLevel+1), vChoice("querylevel", MaxIndexedCellLevel+1)
	c, q := vhCell("c", lc), vhCell("q", lq)
	vAssert(c.Level() == lc && q.Level() == lq && c.IsValid() && q.IsValid(), "generated cells are valid cells of the chosen levels")
	feature := TokensForCovering(s2.CellUnion{c}, nil)
	query := RewriteSpatialQuery(Spatial(s2.CellUnion{q}))
	union, ok := query.(Union)
	vAssert(ok, "the rewritten query is a union of token queries")
	share := false
	for _, leaf := range union {
		all, ok := leaf.(All)
		vAssert(ok, "leaves are token queries")
		for _, t := range feature {
			share = vOr(share, t == all.Token)
		}
	}
	vReach("tokens")
	want := vOr(vhContains(c, lc, q, lq), vhContains(q, lq, c, lc))
	vAssert(c.Intersects(q) == want, "s2.CellID.Intersects is containment one way or the other")
	if want {
		vAssert(share, "the index never hides a match: intersecting cells share a token")
	} else {
		vAssert(!share, "no candidate is invented: cells that do not intersect share no token")
	}
}
