//go:build verif

package search

// C06: compiled iterators denote the sorted set of their query under any mix
// of Next and Advance calls.

type vhC06Lists struct {
	a, b, ab []int // values under the tokens "a", "b", "ab"
}

func vhIn(x int, list []int) bool {
	in := false
	for _, y := range list {
		in = vOr(in, x == y)
	}
	return in
}

// vhC06Queries: the catalogue of query trees; denotes(x) is the membership
// predicate of the set the query stands for, written with the statement's
// set algebra (no control flow: it is one solver term).
const vhC06NumQueries = 12

func vhC06Query(which int, lo, hi int) Query {
	switch which {
	case 0:
		return All{Token: "a"}
	case 1:
		return Union{All{Token: "a"}, All{Token: "b"}}
	case 2:
		return Intersection{All{Token: "a"}, All{Token: "b"}}
	case 3:
		return Intersection{All{Token: "a"}, All{Token: "b"}, All{Token: "ab"}}
	case 4:
		return KeyRange{Begin: lo, End: hi, Query: All{Token: "a"}}
	case 5:
		return KeyRange{Begin: lo, End: hi, Query: Union{All{Token: "a"}, All{Token: "b"}}}
	case 6:
		return TokenPrefix{Prefix: "a"}
	case 7:
		return Union{Intersection{All{Token: "a"}, All{Token: "b"}}, All{Token: "ab"}}
	case 8:
		return Intersection{Union{All{Token: "a"}, All{Token: "b"}}, All{Token: "ab"}}
	case 9:
		return Intersection{All{Token: "b"}, KeyRange{Begin: lo, End: hi, Query: All{Token: "a"}}}
	case 10:
		return Union{All{Token: "a"}, All{Token: "missing"}, All{Token: "b"}, All{Token: "ab"}}
	default:
		return Intersection{KeyRange{Begin: lo, End: hi, Query: All{Token: "a"}}, All{Token: "b"}, All{Token: "ab"}}
	}
}

func vhC06Denotes(which int, l *vhC06Lists, lo, hi int, x int) bool {
	inA, inB, inAB := vhIn(x, l.a), vhIn(x, l.b), vhIn(x, l.ab)
	inRange := vAnd(x >= lo, x < hi)
	switch which {
	case 0:
		return inA
	case 1:
		return vOr(inA, inB)
	case 2:
		return vAnd(inA, inB)
	case 3:
		return vAll(inA, inB, inAB)
	case 4:
		return vAnd(inA, inRange)
	case 5:
		return vAnd(vOr(inA, inB), inRange)
	case 6:
		return vOr(inA, inAB)
	case 7:
		return vOr(vAnd(inA, inB), inAB)
	case 8:
		return vAnd(vOr(inA, inB), inAB)
	case 9:
		return vAll(inB, inA, inRange)
	case 10:
		return vOr(vOr(inA, inB), inAB)
	default:
		return vAll(inA, inRange, inB, inAB)
	}
}

// vhIncreasing is a list of n strictly increasing 8-bit keys (the order within
// one token's list is fixed by the index anyway; cross-list order, equalities
// between lists and the position of every Advance target are the solver's).
func vhIncreasing(name string, n int) []int {
	out := make([]int, n)
	for i := range out {
		out[i] = vhKey(name)
		if i > 0 {
			vAssume(out[i] > out[i-1])
		}
	}
	return out
}

// vhC06ListsFor: list sizes 0..2, 0..2, 0..1 (thorough 0..2); the three-way
// intersections get three lists of exactly two values in the quick tier (with
// a one-element list the driving iterator could never be advanced twice).
func vhC06ListsFor(which int) *vhC06Lists {
	if vTier() == 0 && (which == 3 || which == 11) {
		return &vhC06Lists{a: vhIncreasing("a", 2), b: vhIncreasing("b", 2), ab: vhIncreasing("ab", 2)}
	}
	return &vhC06Lists{a: vhIncreasing("a", vChoice("na", 3)), b: vhIncreasing("b", vChoice("nb", 3)), ab: vhIncreasing("ab", vChoice("nab", 2+vTier()))}
}

func vhSeqMapN(f func(i int) error, n int, goroutines int) error {
	for i := 0; i < n; i++ {
		if err := f(i); err != nil {
			return err
		}
	}
	return nil
}

func vhC06Index(kind int, l *vhC06Lists) Index {
	add := func(ix interface {
		Add(v Value, tokens []string)
	}) {
		// interleave the additions so that insertion order is not sorted order
		for i := len(l.a) - 1; i >= 0; i-- {
			ix.Add(l.a[i], []string{"a"})
		}
		for _, v := range l.ab {
			ix.Add(v, []string{"ab"})
		}
		for _, v := range l.b {
			ix.Add(v, []string{"b"})
		}
	}
	if kind == 0 {
		ix := NewTreeIndex(vhInts{})
		add(ix)
		return ix
	}
	// ArrayIndex.Finish sorts its lists on goroutines; here sequentially
	vStub("diagonal.works/b6/search.mapNWithLimit", vhSeqMapN)
	ix := NewArrayIndex(vhInts{})
	add(ix)
	// a duplicate addition must not produce a duplicate result
	if len(l.a) > 0 {
		ix.Add(l.a[0], []string{"a"})
	}
	ix.Finish(1)
	return ix
}

func vhC06Run(kind int, which int, l *vhC06Lists, nops int) {
	lo, hi := vhKey("lo"), vhKey("hi")
	ix := vhC06Index(kind, l)
	it := vhC06Query(which, lo, hi).Compile(ix)
	var cands []int
	cands = append(cands, l.a...)
	cands = append(cands, l.b...)
	cands = append(cands, l.ab...)
	started := false
	cur := 0
	for op := 0; op < nops; op++ {
		isNext := vBool("next")
		k := 0
		var ret bool
		if isNext {
			ret = it.Next()
		} else {
			k = vhKey("k")
			ret = it.Advance(k)
		}
		// bound(x): what the call may land on
		exists := false
		for _, x := range cands {
			b := vhC06Denotes(which, l, lo, hi, x)
			if isNext {
				if started {
					b = vAnd(b, x > cur)
				}
			} else {
				b = vAnd(b, x >= k)
				if started {
					b = vAnd(b, x >= cur)
				}
			}
			exists = vOr(exists, b)
		}
		vReach("op")
		vAssert(ret == exists, "the call reports whether a value remains")
		if !ret {
			return // what an exhausted iterator does next is not specified
		}
		v := it.Value().(int)
		vAssert(vhC06Denotes(which, l, lo, hi, v), "the iterator yields only members of the set the query denotes")
		if isNext {
			if started {
				vAssert(v > cur, "Next moves strictly forward")
			}
		} else {
			vAssert(v >= k, "Advance lands on a value >= its target")
			if started {
				vAssert(v >= cur, "Advance never moves backwards")
			}
		}
		least := true
		for _, x := range cands {
			b := vhC06Denotes(which, l, lo, hi, x)
			if isNext {
				if started {
					b = vAnd(b, x > cur)
				}
			} else {
				b = vAnd(b, x >= k)
				if started {
					b = vAnd(b, x >= cur)
				}
			}
			least = vAnd(least, vOr(!b, x >= v))
		}
		vAssert(least, "no value of the set is skipped")
		started, cur = true, v
	}
}

// Tree index (TreeIndex) under every query of the catalogue.
//
//vh:steps=6000000 split=5 wall.thorough=2400
func VH_C06_TreeIndex() {
	which := vChoice("query", vhC06NumQueries)
	vhC06Run(0, which, vhC06ListsFor(which), 2+vTier())
}

// Array index (ArrayIndex, sorted and deduplicated by Finish).
//
//vh:steps=6000000 split=5 wall.thorough=2400
func VH_C06_ArrayIndex() {
	which := vChoice("query", vhC06NumQueries)
	vhC06Run(1, which, vhC06ListsFor(which), 2+vTier())
}

// ArrayIndex.Finish: unsorted input with duplicates becomes a sorted set.
//
//vh:steps=4000000
func VH_C06_ArrayFinish() {
	vStub("diagonal.works/b6/search.mapNWithLimit", vhSeqMapN)
	ix := NewArrayIndex(vhInts{})
	n := vChoice("n", 4+vTier())
	vals := make([]int, n)
	for i := range vals {
		vals[i] = vhKey("v")
		ix.Add(vals[i], []string{"t"})
	}
	ix.Finish(1)
	it := ix.Begin("t")
	var got []int
	for it.Next() {
		got = append(got, it.Value().(int))
		vAssert(len(got) <= n, "iteration terminates")
	}
	vReach("finish")
	for i := range got {
		if i > 0 {
			vAssert(got[i-1] < got[i], "Finish sorts and deduplicates")
		}
		vAssert(vhIn(got[i], vals), "only added values")
	}
	for _, v := range vals {
		vAssert(vhIn(v, got), "every added value is present")
	}
}
