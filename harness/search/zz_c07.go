//go:build verif

package search

// C07: the AVL tree index stays a balanced sorted set across any edit history
// (inductive step from an arbitrary valid tree), and open iterators survive
// edits.

// vhKey is a key from a 256-element total order.  The tree only ever compares
// keys (through Values), so its behaviour depends on the order type of the
// keys involved alone, and every order type of up to 17 keys is realised
// within 0..255; 8-bit keys keep the solver's transitivity reasoning cheap.
func vhKey(name string) int { return int(vU8(name)) }

type vhInts struct{}

func (vhInts) Compare(a Value, b Value) Comparison {
	x, y := a.(int), b.(int)
	if x < y {
		return ComparisonLess
	} else if x > y {
		return ComparisonGreater
	}
	return ComparisonEqual
}

func (vhInts) CompareKey(v Value, k Key) Comparison {
	x, y := v.(int), k.(int)
	if x < y {
		return ComparisonLess
	} else if x > y {
		return ComparisonGreater
	}
	return ComparisonEqual
}

func (vhInts) Key(v Value) Key { return v }

// vhAVL builds an arbitrary AVL subtree of exactly height h (every shape is a
// separate path); keys are assigned in order from *keys, strictly increasing.
func vhAVL(h int, parent *treeNode, keys *[]int) *treeNode {
	if h == 0 {
		return nil
	}
	n := &treeNode{parent: parent}
	hl, hr := h-1, h-1
	if h >= 2 {
		switch vChoice("shape", 3) {
		case 1:
			hr = h - 2
		case 2:
			hl = h - 2
		}
	}
	n.left = vhAVL(hl, n, keys)
	k := vhKey("k")
	if len(*keys) > 0 {
		vAssume(k > (*keys)[len(*keys)-1])
	}
	*keys = append(*keys, k)
	n.v = k
	n.right = vhAVL(hr, n, keys)
	n.balance = int8(hr - hl)
	return n
}

func vhInOrder(n *treeNode, out *[]int) {
	if n == nil {
		return
	}
	vhInOrder(n.left, out)
	*out = append(*out, n.v.(int))
	vhInOrder(n.right, out)
}

func vhSameInts(got, want []int, what string) {
	vAssert(len(got) == len(want), what+": size")
	ok := true
	for i := range got {
		ok = vAnd(ok, got[i] == want[i])
	}
	vAssert(ok, what+": contents in order")
}

func vhDrain(it *treeListIterator) []int {
	var out []int
	for it.Next() {
		out = append(out, it.Value().(int))
		vAssert(len(out) < 40, "iteration terminates")
	}
	return out
}

func vhTree(maxH int) (*treeList, []int) {
	t := newTreeList(vhInts{})
	var keys []int
	h := vChoice("height", maxH+1)
	t.root = vhAVL(h, nil, &keys)
	t.length = len(keys)
	return t, keys
}

// vhApply applies insert/delete of k to the model (sorted set).
func vhModelInsert(m []int, k int) []int {
	out := make([]int, 0, len(m)+1)
	done := false
	for _, x := range m {
		if !done && k <= x {
			if k < x {
				out = append(out, k)
			}
			done = true
		}
		out = append(out, x)
	}
	if !done {
		out = append(out, k)
	}
	return out
}

func vhModelDelete(m []int, k int) []int {
	out := make([]int, 0, len(m))
	for _, x := range m {
		if x != k {
			out = append(out, x)
		}
	}
	return out
}

// One insert or delete from an arbitrary valid AVL tree of height <= 3 (quick)
// / 4 (thorough): the result is a valid AVL tree holding the model set.
// Validate() is the real code's own invariant check (balance factors = height
// differences, parent links, order), so one step from every valid tree covers
// edit histories of any length up to the height bound.
//
//vh:steps=4000000 split=4 wall.thorough=2400
func VH_C07_OneStep() {
	t, keys := vhTree(3 + vTier())
	vAssert(t.Validate(), "the generated tree is a valid AVL tree")
	k := vhKey("key")
	var want []int
	if vBool("insert") {
		vReach("insert")
		t.Insert(k)
		want = vhModelInsert(keys, k)
	} else {
		vReach("delete")
		t.DeleteKey(k)
		want = vhModelDelete(keys, k)
	}
	vAssert(t.Validate(), "still a valid AVL tree (balance, parent links, order)")
	var got []int
	vhInOrder(t.root, &got)
	vhSameInts(got, want, "tree contents")
	vhSameInts(vhDrain(t.Begin()), want, "Begin/Next enumeration")
	probe := vhKey("probe")
	_, found := t.Lookup(probe)
	in := false
	for _, x := range want {
		in = vOr(in, x == probe)
	}
	vAssert(found == in, "Lookup finds exactly the members")
}

// An iterator that is open while values are inserted or deleted continues in
// order from where it was: what it yields afterwards is strictly increasing
// and beyond its position, contains nothing that is absent from the tree, and
// contains every value that was present throughout and lies beyond its
// position.
//
//vh:steps=4000000 split=4 wall.thorough=2400 recursion=violation depth=100
func VH_C07_IteratorUnderEdits() {
	t, keys := vhTree(2 + vTier())
	it := t.Begin()
	p := vChoice("pos", len(keys)+1) // number of Next calls before the edits
	for i := 0; i < p; i++ {
		vAssert(it.Next(), "Next before the edits")
		vAssert(it.Value().(int) == keys[i], "value before the edits")
	}
	model := keys
	nedits := 1 + vChoice("edits", 2)
	throughout := append([]int{}, keys...)
	for e := 0; e < nedits; e++ {
		k := vhKey("ek")
		if vBool("einsert") {
			t.Insert(k)
			model = vhModelInsert(model, k)
		} else {
			t.DeleteKey(k)
			model = vhModelDelete(model, k)
			throughout = vhModelDelete(throughout, k)
		}
	}
	vReach("edited")
	rest := vhDrain(it)
	// strictly increasing and beyond the position
	for i := range rest {
		if i > 0 {
			vAssert(rest[i-1] < rest[i], "an open iterator yields strictly increasing values")
		}
		if p > 0 {
			vAssert(rest[i] > keys[p-1], "an open iterator never goes back or repeats")
		}
		in := false
		for _, x := range model {
			in = vOr(in, x == rest[i])
		}
		vAssert(in, "an open iterator yields only values that are in the tree")
	}
	for _, x := range throughout {
		if p == 0 || x > keys[p-1] {
			in := false
			for _, y := range rest {
				in = vOr(in, x == y)
			}
			vAssert(in, "an open iterator yields every value present throughout beyond its position")
		}
	}
}

// Advance on the tree iterator, also across a deletion of the node it is on.
//
//vh:steps=4000000 split=4 recursion=violation depth=100
func VH_C07_IteratorAdvance() {
	t, keys := vhTree(2 + vTier())
	it := t.Begin()
	p := vChoice("pos", len(keys)+1)
	for i := 0; i < p; i++ {
		it.Next()
	}
	model := keys
	if vBool("delete") {
		k := vhKey("dk")
		t.DeleteKey(k)
		model = vhModelDelete(model, k)
	}
	target := vhKey("target")
	// first remaining value >= target, not before the position
	want, have := 0, false
	for _, x := range model {
		if have {
			break
		}
		beyond := p == 0 || x >= keys[p-1]
		if beyond && x >= target {
			want, have = x, true
		}
	}
	vReach("advance")
	ok := it.Advance(target)
	if p > 0 && !have {
		// the iterator may also stay on its current (still present) value
	}
	if ok {
		v := it.Value().(int)
		in := false
		for _, x := range model {
			in = vOr(in, x == v)
		}
		vAssert(in, "Advance lands on a value that is in the tree")
		vAssert(have && v == want, "Advance lands on the first remaining value >= the target")
	} else {
		vAssert(!have, "Advance reports false only when no remaining value is >= the target")
	}
}

// TreeIndex.Add / Remove at the token level.
//
//vh:steps=4000000
func VH_C07_TreeIndex() {
	ix := NewTreeIndex(vhInts{})
	toks := []string{"a", "b"}
	var model [2][]int
	n := 1 + vChoice("ops", 3+vTier())
	for i := 0; i < n; i++ {
		v := int(vU8("v") & 7)
		var ts []string
		ta, tb := vBool("ta"), vBool("tb")
		if ta {
			ts = append(ts, "a")
		}
		if tb {
			ts = append(ts, "b")
		}
		if vBool("add") {
			ix.Add(v, ts)
			if ta {
				model[0] = vhModelInsert(model[0], v)
			}
			if tb {
				model[1] = vhModelInsert(model[1], v)
			}
		} else {
			ix.Remove(v, ts)
			if ta {
				model[0] = vhModelDelete(model[0], v)
			}
			if tb {
				model[1] = vhModelDelete(model[1], v)
			}
		}
	}
	vReach("treeindex")
	for j, tok := range toks {
		it := ix.Begin(tok)
		var got []int
		for it.Next() {
			got = append(got, it.Value().(int))
			vAssert(len(got) < 20, "iteration terminates")
		}
		vhSameInts(got, model[j], "TreeIndex.Begin("+tok+")")
	}
}
