//go:build verif

package graph

import (
	"diagonal.works/b6"
	"diagonal.works/b6/ingest"
)

// C30: shortest-path search finds true shortest distances and routes.
//
// A small directed network (fixed candidate edges; whether each is usable is a
// solver variable, as are the weights - integers in 1..2^20 carried exactly as
// float64 - and the distance limit) is searched with the real
// NewShortestPathSearchFromPoint / ExpandSearch / AddOrUpdate / heap methods /
// BuildRoute / PointDistances over a stub world that serves Traverse,
// FindReferences and FindFeatureByID from the edge list. The result is checked
// with the optimality certificate of shortest paths rather than by a second
// search: (1) every reported point has a route that is a chain of usable edges
// from the origin whose cumulative costs are the reported ones and stay under
// the limit; (2) no usable edge can improve a reported distance or reach an
// unreported point under the limit. (1) and (2) together hold exactly for the
// true shortest distances, and (2) by induction gives completeness.

const vhGraphNS = b6.Namespace("g")

func vhNode(i int) b6.FeatureID {
	return b6.FeatureID{Type: b6.FeatureTypePoint, Namespace: vhGraphNS, Value: uint64(i)}
}

type vhEdge struct {
	from, to int
	path     *ingest.GenericFeature
	usable   bool
	weight   float64
}

type vhGraphWorld struct {
	b6.World
	edges []*vhEdge
}

func (w *vhGraphWorld) Traverse(id b6.FeatureID) b6.Segments {
	var ss []b6.Segment
	for _, e := range w.edges {
		if uint64(e.from) == id.Value {
			ss = append(ss, b6.Segment{Feature: e.path, First: 0, Last: 1})
		}
	}
	return ingest.NewSegmentIterator(ss)
}

func (w *vhGraphWorld) FindReferences(id b6.FeatureID, typed ...b6.FeatureType) b6.Features {
	var fs []b6.Feature
	for _, e := range w.edges {
		if uint64(e.from) == id.Value || uint64(e.to) == id.Value {
			fs = append(fs, e.path)
		}
	}
	return b6.NewFeatureIterator(fs)
}

func (w *vhGraphWorld) FindFeatureByID(id b6.FeatureID) b6.Feature {
	for _, e := range w.edges {
		if e.path.FeatureID() == id {
			return e.path
		}
	}
	return nil
}

type vhWeights struct{ w *vhGraphWorld }

func (v vhWeights) edge(s b6.Segment) *vhEdge {
	for _, e := range v.w.edges {
		if e.path.FeatureID() == s.Feature.FeatureID() {
			return e
		}
	}
	return nil
}

func (v vhWeights) IsUseable(s b6.Segment) bool { return v.edge(s).usable }
func (v vhWeights) Weight(s b6.Segment) float64 { return v.edge(s).weight }

func vhGraph(pairs [][2]int) *vhGraphWorld {
	w := &vhGraphWorld{}
	for k, p := range pairs {
		path := &ingest.GenericFeature{ID: b6.FeatureID{Type: b6.FeatureTypePath, Namespace: vhGraphNS, Value: uint64(100 + k)}}
		path.AddTag(b6.Tag{Key: b6.PathTag, Value: b6.NewExpressions([]b6.AnyExpression{b6.FeatureIDExpression(vhNode(p[0])), b6.FeatureIDExpression(vhNode(p[1]))})})
		wt := int(vU32("weight"))
		vAssume(wt >= 1 && wt <= 1<<20)
		w.edges = append(w.edges, &vhEdge{from: p[0], to: p[1], path: path, usable: vBool("usable"), weight: float64(wt)})
	}
	return w
}

func vhC30Check(pairs [][2]int, nnodes int) {
	w := vhGraph(pairs)
	// the origin must be connected for the search to start from it
	w.edges[0].usable = true
	weights := vhWeights{w}
	lim := int(vU32("limit"))
	vAssume(lim <= 1<<24)
	limit := float64(lim)
	s := NewShortestPathSearchFromPoint(vhNode(0), weights, w)
	s.ExpandSearch(limit, weights, Points, w)
	vReach("searched")
	dist := s.PointDistances()
	reported := make([]bool, nnodes)
	d := make([]float64, nnodes)
	for i := 0; i < nnodes; i++ {
		d[i], reported[i] = dist[vhNode(i)]
	}
	vAssert(reported[0] && d[0] == 0, "the origin is reported at distance 0")
	// (1) routes
	for v := 1; v < nnodes; v++ {
		if !reported[v] {
			continue
		}
		vAssert(d[v] < limit, "reported distances are under the limit")
		route := s.BuildRoute(vhNode(v))
		vAssert(route.Origin == vhNode(0), "a route starts at the origin")
		vAssert(len(route.Steps) >= 1 && len(route.Steps) < nnodes, "a route has a bounded number of steps")
		prev := 0
		cost := 0.0
		for _, step := range route.Steps {
			var via *vhEdge
			for _, e := range w.edges {
				if e.path.FeatureID() == step.Via {
					via = e
				}
			}
			vAssert(via != nil && via.from == prev && vhNode(via.to) == step.Destination, "each step follows an edge from the previous point")
			if via == nil {
				return
			}
			vAssert(via.usable, "routes use only usable edges")
			cost = cost + via.weight
			vAssert(step.Cost == cost, "a step's cost is the cumulative weight along the route")
			prev = via.to
		}
		vAssert(prev == v && cost == d[v], "the route ends at the point and costs its reported distance")
	}
	// (2) no edge can improve on the result
	for _, e := range w.edges {
		if !e.usable || !reported[e.from] {
			continue
		}
		c := d[e.from] + e.weight
		if reported[e.to] {
			vAssert(vOr(!(c < limit), d[e.to] <= c), "no usable edge gives a shorter distance than the reported one")
		} else {
			vAssert(!(c < limit), "every point reachable under the limit is reported")
		}
	}
}

// Four points: two competing routes to point 3 and a back edge.
//
//vh:steps=8000000 split=5
//vh:assume[C30] weights are integers in 1..2^20 and the limit is an integer <= 2^24, carried exactly as float64 (sums stay far below 2^53)
func VH_C30_Diamond() {
	vhC30Check([][2]int{{0, 1}, {0, 2}, {1, 2}, {2, 1}, {1, 3}, {2, 3}}, 4)
}

// Five points with a long direct edge that cheaper multi-hop routes improve
// on after it has been queued (decrease-key), thorough tier.
//
//vh:steps=12000000 split=6 tier=thorough wall.thorough=3000
func VH_C30_FivePoints() {
	vhC30Check([][2]int{{0, 1}, {0, 2}, {0, 3}, {1, 2}, {2, 3}, {1, 3}, {3, 4}, {2, 4}, {1, 4}}, 5)
}
