//go:build verif

package renderer

import (
	"diagonal.works/b6"
	pb "diagonal.works/b6/proto"
	"github.com/golang/geo/r2"
	"github.com/golang/geo/s2"
)

// C33: decoding the command stream of an encoded tile feature reproduces the
// feature's projected integer coordinates, and tags decode to what was set.

type vhXY struct{ x, y int }

// vhDecodeGeometry is a decoder of the Mapbox vector tile command stream
// (spec 2.1, section 4.3): returns the rings / lines and whether each was
// closed. Vertices are returned as the decoded cursor movements (dx, dy): the
// absolute coordinates of the spec are their prefix sums from the tile origin,
// so "movement i == vertex i - vertex i-1" for every i (the first relative to
// the origin) is the same statement, and keeps every obligation local to one
// zigzag value.
func vhDecodeGeometry(g []uint32) (parts [][]vhXY, closed []bool, ok bool) {
	x, y := 0, 0
	i := 0
	for i < len(g) {
		cmd, count := g[i]&7, int(g[i]>>3)
		i++
		switch cmd {
		case TileCommandMoveTo:
			for c := 0; c < count; c++ {
				if i+1 >= len(g) {
					return nil, nil, false
				}
				x = zigzagDecodeRef(g[i])
				y = zigzagDecodeRef(g[i+1])
				i += 2
				parts = append(parts, []vhXY{{x, y}})
				closed = append(closed, false)
			}
		case TileCommandLineTo:
			if len(parts) == 0 {
				return nil, nil, false
			}
			for c := 0; c < count; c++ {
				if i+1 >= len(g) {
					return nil, nil, false
				}
				x = zigzagDecodeRef(g[i])
				y = zigzagDecodeRef(g[i+1])
				i += 2
				parts[len(parts)-1] = append(parts[len(parts)-1], vhXY{x, y})
			}
		case TileCommandClosePath:
			if len(parts) == 0 || count != 1 {
				return nil, nil, false
			}
			closed[len(closed)-1] = true
		default:
			return nil, nil, false
		}
	}
	return parts, closed, true
}

// the spec's zigzag decoding, written independently of the encoder's
func zigzagDecodeRef(v uint32) int {
	return int(int32(v>>1) ^ -int32(v&1))
}

func vhCoord(name string, origin int) int {
	d := int(vI32(name))
	vAssume(d > -(1<<29) && d < 1<<29) // within 2^29 of the tile origin
	return origin + d
}

// Polygon rings, lines and points through the Encoder API with symbolic
// integer coordinates and a symbolic tile origin.
//
//vh:steps=4000000 split=4
func VH_C33_EncoderGeometry() {
	ox, oy := int(vI32("originx")), int(vI32("originy"))
	e := NewEncoder(ox, oy, "layer", 1<<TileExtent)
	f := e.StartFeature()
	nrings := 1 + vChoice("rings", 2)
	var want [][]vhXY
	closeRings := vBool("polygon")
	for r := 0; r < nrings; r++ {
		n := 1 + vChoice("points", 3+vTier())
		pts := make([]vhXY, n)
		for i := range pts {
			pts[i] = vhXY{vhCoord("x", ox), vhCoord("y", oy)}
		}
		e.MoveTo(1)
		e.XY(pts[0].x, pts[0].y)
		if n > 1 {
			e.LineTo(n - 1)
			for i := 1; i < n; i++ {
				e.Point(r2.Point{X: float64(pts[i].x), Y: float64(pts[i].y)})
			}
		}
		if closeRings {
			e.ClosePath()
		}
		want = append(want, pts)
	}
	vReach("encoded")
	parts, closed, ok := vhDecodeGeometry(f.Geometry)
	vAssert(ok, "the command stream is well formed")
	vAssert(len(parts) == len(want), "one part per MoveTo")
	prev := vhXY{ox, oy} // the cursor starts at the tile origin
	for r := range parts {
		if r >= len(want) {
			break
		}
		vAssert(closed[r] == closeRings, "ClosePath closes the ring")
		vAssert(len(parts[r]) == len(want[r]), "every vertex is in the stream")
		same := true
		for i := range parts[r] {
			if i < len(want[r]) {
				same = vAll(same, parts[r][i].x == want[r][i].x-prev.x, parts[r][i].y == want[r][i].y-prev.y)
				prev = want[r][i]
			}
		}
		vAssert(same, "decoded coordinates are the projected coordinates relative to the tile origin")
	}
}

// simplifyAndEncodePolygon: outer rings and holes come out in opposite
// orders; projectLoop is replaced by harness-supplied integer points.
//
//vh:steps=8000000 split=3 novalidate
//vh:assume[C33] projectLoop (Mercator projection, float) is replaced by arbitrary integer points within 2^29 of the tile origin; loop.IsHole comes from a real two-loop S2 polygon
func VH_C33_PolygonWinding() {
	ox, oy := int(vI32("originx")), int(vI32("originy"))
	var rings [][]vhXY
	calls := 0
	project := func(loop *s2.Loop, projection *b6.TileMercatorProjection) []r2.Point {
		n := 2 + vChoice("points", 2+vTier())
		pts := make([]vhXY, n)
		out := make([]r2.Point, n)
		for i := range pts {
			pts[i] = vhXY{vhCoord("x", ox), vhCoord("y", oy)}
			out[i] = r2.Point{X: float64(pts[i].x), Y: float64(pts[i].y)}
		}
		rings = append(rings, pts)
		calls++
		return out
	}
	vStub("diagonal.works/b6/renderer.projectLoop", project)
	outer := s2.LoopFromPoints([]s2.Point{s2.PointFromLatLng(s2.LatLngFromDegrees(0, 0)), s2.PointFromLatLng(s2.LatLngFromDegrees(0, 3)), s2.PointFromLatLng(s2.LatLngFromDegrees(3, 0))})
	hole := s2.LoopFromPoints([]s2.Point{s2.PointFromLatLng(s2.LatLngFromDegrees(0.5, 0.5)), s2.PointFromLatLng(s2.LatLngFromDegrees(1, 0.5)), s2.PointFromLatLng(s2.LatLngFromDegrees(0.5, 1))})
	loops := []*s2.Loop{outer, hole}
	if vBool("island") {
		// a shell nested inside the hole (depth 2): again an outer ring
		island := s2.LoopFromPoints([]s2.Point{s2.PointFromLatLng(s2.LatLngFromDegrees(0.6, 0.6)), s2.PointFromLatLng(s2.LatLngFromDegrees(0.6, 0.7)), s2.PointFromLatLng(s2.LatLngFromDegrees(0.7, 0.6))})
		loops = append(loops, island)
	}
	polygon := s2.PolygonFromOrientedLoops(loops)
	e := NewEncoder(ox, oy, "layer", 1<<TileExtent)
	simplifyAndEncodePolygon(polygon, e, nil)
	vReach("encoded")
	f := e.Layer().Features[0]
	vAssert(f.GetType() == pb.TileProto_POLYGON, "feature type")
	parts, closed, ok := vhDecodeGeometry(f.Geometry)
	vAssert(ok, "the command stream is well formed")
	vAssert(len(parts) == polygon.NumLoops() && calls == polygon.NumLoops(), "one ring per loop")
	prev := vhXY{ox, oy}
	for r := range parts {
		if r >= len(rings) {
			break
		}
		vAssert(closed[r], "rings are closed")
		n := len(rings[r])
		vAssert(len(parts[r]) == n, "every vertex is in the stream")
		same := true
		for i := 0; i < n && i < len(parts[r]); i++ {
			src := i
			if polygon.Loop(r).IsHole() && i > 0 {
				src = n - i // holes: first vertex, then the others in reverse
			}
			same = vAll(same, parts[r][i].x == rings[r][src].x-prev.x, parts[r][i].y == rings[r][src].y-prev.y)
			prev = rings[r][src]
		}
		vAssert(same, "outer rings keep their vertex order, holes come out reversed")
	}
}

// Tags: key/value index pairs decode to what was set; repeated keys and
// values share table entries.
//
//vh:steps=4000000 split=3
func VH_C33_Tags() {
	e := NewEncoder(0, 0, "layer", 1<<TileExtent)
	f := e.StartFeature()
	n := 1 + vChoice("ntags", 3)
	keys := make([]string, n)
	svals := make([]string, n)
	ivals := make([]int64, n)
	isInt := make([]bool, n)
	for i := 0; i < n; i++ {
		keys[i] = vStr("key", 1)
		isInt[i] = vBool("isint")
		if isInt[i] {
			ivals[i] = vI64("ival")
			e.Tag(keys[i], ivals[i])
		} else {
			svals[i] = vStr("sval", 1)
			e.Tag(keys[i], svals[i])
		}
	}
	vReach("tagged")
	l := e.Layer()
	vAssert(len(f.Tags) == 2*n, "two indices per tag")
	for i := 0; i < n; i++ {
		ki, vi := f.Tags[2*i], f.Tags[2*i+1]
		vAssert(int(ki) < len(l.Keys) && int(vi) < len(l.Values), "indices are inside the tables")
		vAssert(l.Keys[ki] == keys[i], "the key index decodes to the key")
		v := l.Values[vi]
		if isInt[i] {
			vAssert(v.IntValue != nil && *v.IntValue == ivals[i], "the value index decodes to the int value")
		} else {
			vAssert(v.StringValue != nil && *v.StringValue == svals[i], "the value index decodes to the string value")
		}
	}
	for i := range l.Keys {
		for j := 0; j < i; j++ {
			vAssert(l.Keys[i] != l.Keys[j], "repeated keys share one table entry")
		}
	}
}
