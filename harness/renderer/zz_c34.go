//go:build verif

package renderer

import (
	"github.com/golang/geo/r2"
)

// C34: the iterative Douglas-Peucker simplification returns the same points as
// the recursive reference for any line and tolerance.
//
// distance() is float geometry; it is replaced by an arbitrary non-negative
// function of its three points (one ordered atom per triple of point indices,
// compared but never computed with), which is more general than the real
// distance: equality of the two algorithms is decided for every outcome of
// every comparison they make.

type vhDistances struct {
	memo map[[3]int]float64
}

var vhDist *vhDistances

func vhDistance(a r2.Point, b r2.Point, p r2.Point) float64 {
	k := [3]int{int(a.X), int(b.X), int(p.X)}
	if d, ok := vhDist.memo[k]; ok {
		return d
	}
	d := vFloatAtom("d")
	vAssume(d >= 0)
	vhDist.memo[k] = d
	return d
}

//vh:steps=8000000 split=6 novalidate wall.thorough=3000
//vh:assume[C34] distance(a,b,p) is replaced by an arbitrary non-negative, non-NaN function of the three points (uninterpreted per triple)
func VH_C34_IterativeMatchesReference() {
	vhDist = &vhDistances{memo: map[[3]int]float64{}}
	vStub("diagonal.works/b6/renderer.distance", vhDistance)
	n := 2 + vChoice("n", 5+vTier()) // 2..6 points (thorough ..7)
	points := make([]r2.Point, n)
	for i := range points {
		points[i] = r2.Point{X: float64(i), Y: 0}
	}
	eps := vFloatAtom("epsilon")
	vAssume(eps >= 0) // a tolerance; with a negative one the reference itself recurses forever
	want := referenceDouglasPeuckerSimplify(points, eps)
	got := Simplify(points, eps)
	vReach("simplified")
	vAssert(len(got) == len(want), "same number of points as the recursive reference")
	for i := range got {
		if i < len(want) {
			vAssert(got[i] == want[i], "same points as the recursive reference")
		}
		if i > 0 {
			vAssert(got[i-1].X < got[i].X, "the result is a subsequence of the input")
		}
	}
	vAssert(got[0] == points[0] && got[len(got)-1] == points[n-1], "first and last points are kept")
}

// A single point is returned as is.
func VH_C34_SinglePoint() {
	got := Simplify([]r2.Point{{X: 3, Y: 4}}, vFloatAtom("epsilon"))
	vReach("single")
	vAssert(len(got) == 1 && got[0].X == 3 && got[0].Y == 4, "a single point is kept")
}
