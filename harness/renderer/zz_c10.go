//go:build verif

package renderer

// C10: the tile encoder's zigzag coding over the coordinate domain |v| < 2^30.
func VH_C10_TileZigzag() {
	v := vInt("v")
	vAssume(v > -(1<<30) && v < 1<<30)
	e := zigzagEncode(v)
	vReach("tile-zigzag")
	vObsU64("e", uint64(e))
	vAssert(zigzagDecode(e) == v, "zigzagDecode(zigzagEncode(v)) == v")
}
