//go:build verif

package encoding

import "sort"

// C09: fixed-width little-endian integers. Every v round-trips with its own
// minimal length and with any longer length up to 8.
func VH_C09_FixedWidth() {
	v := vU64("v")
	l := Uint64Length(v)
	extra := vChoice("extra", 8)
	vAssume(l+extra <= 8)
	l += extra
	var buf [8]byte
	MarshalUint64(v, l, buf[:])
	got := UnmarshalUint64(l, buf[:])
	vReach("fixed")
	vObsU64("got", got)
	vAssert(got == v, "UnmarshalUint64(MarshalUint64(v)) == v")
	// minimality: one byte less loses information unless v fits
	if l > 1 && extra == 0 {
		vAssert(v>>(8*uint(l-1)) != 0, "Uint64Length is minimal")
	}
}

// C09: delta + zigzag + varint coded uint64 sequences (any values, any gaps).
//
//vh:decisions=200
func VH_C09_DeltaU64() {
	n := 1 + vChoice("n", 2+vTier())
	vs := make([]uint64, n)
	for i := range vs {
		vs[i] = vU64("v")
	}
	buf := make([]byte, 10*n)
	w := MarshalDeltaCodedUint64s(vs, buf)
	out, r := UnmarshalDeltaCodedUint64(nil, n, buf)
	vReach("delta-u64")
	vObsInt("w", w)
	vAssert(r == w, "bytes consumed == bytes written")
	vAssert(len(out) == n, "length")
	for i := range vs {
		vObsU64("out", out[i])
		vAssert(out[i] == vs[i], "element round-trips")
	}
}

// C09: the int flavour.
//
//vh:decisions=200
func VH_C09_DeltaInts() {
	n := 1 + vChoice("n", 2+vTier())
	vs := make([]int, n)
	for i := range vs {
		vs[i] = vInt("v")
	}
	buf := make([]byte, 10*n)
	w := MarshalDeltaCodedInts(vs, buf)
	out, r := UnmarshalDeltaCodedInts(nil, n, buf)
	vReach("delta-int")
	vAssert(r == w, "bytes consumed == bytes written")
	vAssert(len(out) == n, "length")
	for i := range vs {
		vObsInt("out", out[i])
		vAssert(out[i] == vs[i], "element round-trips")
	}
}

// C09: byte-array tables. Items of arbitrary content, written in an arbitrary
// order (WriteItem may be called in any order and several times per item).
//
//vh:decisions=300
func VH_C09_ByteArrays() {
	k := 1 + vChoice("items", 3)
	items := make([][]byte, k)
	for i := range items {
		items[i] = vBytes("b", vChoice("len", 3+vTier()))
	}
	b := NewByteArraysBuilder(k)
	for i := range items {
		// reserve in two pieces when the item has >= 2 bytes
		if len(items[i]) >= 2 {
			b.Reserve(i, 1)
			b.Reserve(i, len(items[i])-1)
		} else {
			b.Reserve(i, len(items[i]))
		}
	}
	out := NewBufferWithData(nil)
	end, err := b.WriteHeader(out, 0)
	vAssert(err == nil, "WriteHeader")
	// arbitrary write order
	order := make([]int, 0, k)
	used := make([]bool, k)
	for len(order) < k {
		j := vChoice("order", k)
		vAssume(!used[j])
		used[j] = true
		order = append(order, j)
	}
	for _, i := range order {
		if len(items[i]) >= 2 {
			// two buffers in one call
			vAssert(b.WriteItem(out, i, items[i][:1], items[i][1:]) == nil, "WriteItem")
		} else {
			vAssert(b.WriteItem(out, i, items[i]) == nil, "WriteItem")
		}
	}
	data := out.Bytes()
	// the header promises the total length even when trailing items are empty
	for len(data) < int(end) {
		data = append(data, 0)
	}
	vAssert(int(end) == b.Length(), "WriteHeader end offset == Length()")
	r := NewByteArrays(data)
	vReach("bytearrays")
	vAssert(r.NumItems() == k, "NumItems")
	vAssert(r.Length() == len(data), "Length")
	for i := range items {
		got := r.Item(i)
		vAssert(len(got) == len(items[i]), "item length")
		for j := range got {
			vAssert(got[j] == items[i][j], "item byte")
		}
	}
}

// C09: string tables: every added string is found at the index the builder
// reports, whatever the frequencies.
//
//vh:decisions=400 steps=4000000
func VH_C09_StringTable() {
	k := 1 + vChoice("strings", 2+vTier())
	strs := make([]string, k)
	for i := range strs {
		strs[i] = vStr("s", vChoice("len", 3))
	}
	b := NewStringTableBuilder()
	for i := range strs {
		reps := 1 + vChoice("reps", 2)
		for j := 0; j < reps; j++ {
			b.Add(strs[i])
		}
	}
	out := NewBufferWithData(nil)
	end, err := b.Write(out, 0)
	vAssert(err == nil, "Write")
	data := out.Bytes()
	for len(data) < int(end) {
		data = append(data, 0)
	}
	vAssert(b.Length() == int(end), "Length")
	t := NewStringTable(data)
	vReach("stringtable")
	for i := range strs {
		idx := b.Lookup(strs[i])
		vAssert(idx >= 0 && idx < b.NumStrings(), "index in range")
		vAssert(t.Lookup(idx) == strs[i], "Lookup(builder.Lookup(s)) == s")
		vAssert(t.Equal(idx, strs[i]), "Equal(idx, s)")
		for j := range strs {
			if strs[j] != strs[i] {
				vAssert(b.Lookup(strs[j]) != idx, "distinct strings get distinct indices")
				vAssert(!t.Equal(idx, strs[j]), "Equal is false for a different string")
			}
		}
	}
}

type vhEntry struct {
	id   uint64
	tag  Tag
	data []byte
}

// vhID returns an arbitrary 64-bit id. In the quick tier the value is drawn
// from three classes (small: < 2^9, bit 63 set, and "equal to an earlier id")
// so that the varint-length case split stays small; the thorough tier leaves
// it unconstrained.
func vhID(prev []vhEntry) uint64 {
	id := vU64("id")
	if vTier() == 0 {
		switch vChoice("idclass", 3) {
		case 0:
			vAssume(id < 1<<9)
		case 1:
			vAssume(id >= 1<<63)
		case 2:
			vAssume(len(prev) > 0)
			vAssume(id == prev[len(prev)-1].id)
		}
	}
	return id
}

// C09: the uint64-keyed hash map: lookups return exactly the entries written
// under an ID (in write order), iteration visits every ID once with all its
// entries.
//
//vh:steps=6000000 split=5
func VH_C09_Uint64Map() {
	var bucketBits, tagBits, k int
	if vTier() == 0 {
		// quick: two layouts, exactly two entries
		if vChoice("layout", 2) == 0 {
			bucketBits, tagBits = 1, 0
		} else {
			bucketBits, tagBits = 2, 2
		}
		k = 2
	} else {
		bucketBits = 1 + vChoice("bucketBits", 3)
		tagBits = 2 * vChoice("tagBits", 2)
		vAssume(tagBits <= bucketBits) // the builder never creates tagBits > bucketBits (C10)
		k = 1 + vChoice("entries", 3)
	}
	es := make([]vhEntry, 0, k)
	for i := 0; i < k; i++ {
		var e vhEntry
		e.id = vhID(es)
		if tagBits > 0 {
			e.tag = Tag(vU8("tag"))
			vAssume(e.tag < 1<<uint(tagBits))
		}
		e.data = vBytes("d", vChoice("len", 2))
		es = append(es, e)
	}
	b := NewUint64MapBuilder(bucketBits, tagBits)
	for _, e := range es {
		b.Reserve(e.id, e.tag, len(e.data))
	}
	b.FinishReservation()
	out := NewBufferWithData(nil)
	end, err := b.WriteHeader(out, 0)
	vAssert(err == nil, "WriteHeader")
	for _, e := range es {
		vAssert(b.WriteItem(e.id, e.tag, e.data, out) == nil, "WriteItem")
	}
	data := out.Bytes()
	for len(data) < int(end) {
		data = append(data, 0)
	}
	vAssert(b.Length() == int(end), "Length")
	m := NewUint64Map(data)
	vReach("uint64map")
	vAssert(m.Length() == len(data), "map Length")
	for _, e := range es {
		// expected: entries with the same id, in write order
		var want []vhEntry
		for _, f := range es {
			if f.id == e.id {
				want = append(want, f)
			}
		}
		got := m.FillTagged(e.id, nil)
		vAssert(len(got) == len(want), "FillTagged count")
		for i := range got {
			vAssert(got[i].Tag == want[i].tag, "FillTagged tag")
			vAssert(vhBytesEq(got[i].Data, want[i].data), "FillTagged data")
		}
		first, ok := m.FindFirst(e.id)
		vAssert(ok, "FindFirst finds a written id")
		vAssert(first.Tag == want[0].tag, "FindFirst is the first entry written (tag)")
		vAssert(vhBytesEq(first.Data, want[0].data), "FindFirst is the first entry written (data)")
		d := m.FindFirstWithTag(e.id, e.tag)
		var wantTag *vhEntry
		for i := range want {
			if want[i].tag == e.tag {
				wantTag = &want[i]
				break
			}
		}
		vAssert(vhBytesEq(d, wantTag.data), "FindFirstWithTag")
	}
	// an id that was not written is not found
	other := vU64("other")
	for _, e := range es {
		vAssume(e.id != other)
	}
	_, ok := m.FindFirst(other)
	vAssert(!ok, "FindFirst on an absent id")
	vAssert(len(m.FillTagged(other, nil)) == 0, "FillTagged on an absent id")
	// iteration
	var seen []uint64
	total := 0
	it := m.Begin()
	for it.Next() {
		id := it.ID()
		for _, s := range seen {
			vAssert(s != id, "iteration visits each id once")
		}
		seen = append(seen, id)
		n := 0
		for _, e := range es {
			if e.id == id {
				n++
			}
		}
		vAssert(n > 0, "iteration yields only written ids")
		vAssert(it.Len() == n, "iteration yields all entries of the id")
		total += it.Len()
	}
	vAssert(total == k, "iteration yields every entry")
}

func vhBytesEq(a, b []byte) bool {
	if len(a) != len(b) {
		return false
	}
	for i := range a {
		if a[i] != b[i] {
			return false
		}
	}
	return true
}

var _ = sort.Ints
