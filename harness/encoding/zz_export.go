//go:build verif

package encoding

// Exported, side-effect free helpers so that harnesses in other packages can
// drive unexported code of this package (added by overlay only).

// VHX_BucketHeaderRoundTrip marshals and unmarshals one hash-map bucket header
// under the given layout and returns what was decoded and the byte counts.
func VHX_BucketHeaderRoundTrip(bucketBits, tagBits int, id uint64, tag Tag, length int) (uint64, Tag, int, int, int) {
	layout := Uint64MapLayout{BucketBits: bucketBits, TagBits: tagBits}
	var buffer [maxUint64MapBucketHeaderLength]byte
	h := uint64MapBucketHeader{ID: id, Tag: tag, Length: length}
	w := h.Marshal(buffer[0:], &layout)
	var g uint64MapBucketHeader
	r := g.Unmarshal(buffer[0:], layout.BucketForID(id), &layout)
	return g.ID, g.Tag, g.Length, w, r
}
