//go:build verif

package encoding

// C10: zigzag coding is invertible over all int64.
func VH_C10_Zigzag() {
	v := vI64("v")
	e := ZigzagEncode(v)
	d := ZigzagDecode(e)
	vReach("zigzag")
	vObsU64("e", e)
	vObsI64("d", d)
	vAssert(d == v, "ZigzagDecode(ZigzagEncode(v)) == v")
}

// C10: and in the other direction (every uint64 code decodes to a value that
// encodes back to it), so the coding is a bijection.
func VH_C10_ZigzagOnto() {
	u := vU64("u")
	vReach("zigzag-onto")
	vAssert(ZigzagEncode(ZigzagDecode(u)) == u, "ZigzagEncode(ZigzagDecode(u)) == u")
}
