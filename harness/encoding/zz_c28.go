//go:build verif

package encoding

import "errors"

// C28 (hash-map iteration): a callback error stops Uint64Map.EachItem and is
// reported, under every schedule of its dispatcher and workers.
//
// The map holds four ids that fall into its four buckets (2 bucket bits) or
// share buckets; the callback fails on its k-th invocation (k by decision)
// either once or from then on. The engine runs EachItem's goroutines under
// every interleaving of their channel, mutex and wait-group operations
// (bounded by the scheduling-point budget); a schedule in which every
// goroutine is blocked is reported as a deadlock.

var vhErrCallback = errors.New("callback failed")

func vhC28Map(ids []uint64) *Uint64Map {
	b := NewUint64MapBuilder(2, 0)
	for _, id := range ids {
		b.Reserve(id, NoTag, 1)
	}
	b.FinishReservation()
	out := NewBufferWithData(nil)
	end, err := b.WriteHeader(out, 0)
	vAssert(err == nil, "WriteHeader")
	for _, id := range ids {
		vAssert(b.WriteItem(id, NoTag, []byte{byte(id)}, out) == nil, "WriteItem")
	}
	data := out.Bytes()
	for len(data) < int(end) {
		data = append(data, 0)
	}
	return NewUint64Map(data)
}

//vh:steps=8000000 concurrent sched=400 preempt=1 preempt.thorough=2 paths.thorough=1000000
func VH_C28_EachItem() {
	ids := []uint64{0, 1, 2, 3}
	if vBool("shared") {
		ids = []uint64{0, 4, 8, 3} // three ids in one bucket
	}
	m := vhC28Map(ids)
	goroutines := 1 + vChoice("goroutines", 2+vTier())
	failAt := vChoice("failat", len(ids)+1) // == len(ids): never
	sticky := vBool("sticky")
	calls := 0
	failed := false
	callsAfterFailureBy := -1 // goroutine that received the error
	lateCalls := 0
	err := m.EachItem(func(id uint64, tagged []Tagged, g int) error {
		n := calls
		calls++
		if failed && g == callsAfterFailureBy {
			lateCalls++
		}
		if n == failAt || (sticky && failed) {
			if !failed {
				failed = true
				callsAfterFailureBy = g
			}
			return vhErrCallback
		}
		return nil
	}, goroutines)
	vReach("returned")
	if failed {
		vAssert(err != nil, "an error from the callback is reported, never success")
		vAssert(lateCalls == 0, "the goroutine whose callback failed makes no further calls")
	} else {
		vAssert(err == nil, "no error without a failing callback")
		vAssert(calls == len(ids), "every id is visited")
	}
}
