//go:build verif

package ingest

import (
	"diagonal.works/b6"
)

// C16: overlay worlds shadow the base consistently.
//
// Two or three real worlds are stacked with NewOverlayWorld. Every layer holds
// 0..2 relation features whose ID values are symbolic bytes (so that a feature
// of one layer may or may not shadow one of another: the solver decides), each
// with a tag saying which layer it is in and, optionally, the indexed tag
// #s=x that the search looks for.

type vhLayerFeature struct {
	value   uint64
	matches bool
}

func vhLayer(name string, layer string, n int) (*BasicMutableWorld, []vhLayerFeature) {
	w := NewBasicMutableWorld()
	var fs []vhLayerFeature
	for i := 0; i < n; i++ {
		v := uint64(vU8(name + "id"))
		for _, f := range fs {
			vAssume(f.value != v)
		}
		r := NewRelationFeature(0)
		r.RelationID = b6.FeatureID{Type: b6.FeatureTypeRelation, Namespace: vhNS, Value: v}.ToRelationID()
		r.AddTag(b6.Tag{Key: "layer", Value: b6.NewStringExpression(layer)})
		m := vBool(name + "matches")
		if m {
			r.AddTag(b6.Tag{Key: "#s", Value: b6.NewStringExpression("x")})
		}
		if err := w.AddFeature(r); err != nil {
			vAssert(false, "AddFeature")
		}
		fs = append(fs, vhLayerFeature{value: v, matches: m})
	}
	return w, fs
}

// vhTop: the version of value v that the stack shows: index of the topmost
// layer holding it, or -1.
func vhTop(layers [][]vhLayerFeature, v uint64) (int, bool) {
	for l := range layers {
		for _, f := range layers[l] {
			if f.value == v {
				return l, f.matches
			}
		}
	}
	return -1, false
}

//vh:steps=8000000 split=6 wall.thorough=3000
func VH_C16_StackedOverlays() {
	vhStubPools()
	names := []string{"t", "m", "b"} // top, middle, bottom
	nlayers := 2 + vChoice("three", 2)
	worlds := make([]*BasicMutableWorld, nlayers)
	layers := make([][]vhLayerFeature, nlayers)
	for l := 0; l < nlayers; l++ {
		max := 2
		if nlayers == 3 && vTier() == 0 {
			max = 1
		}
		worlds[l], layers[l] = vhLayer(names[l], names[l], vChoice(names[l]+"n", max+1))
	}
	var w b6.World
	if nlayers == 2 {
		w = NewOverlayWorld(worlds[0], worlds[1])
	} else if vBool("leftnested") {
		w = NewOverlayWorld(NewOverlayWorld(worlds[0], worlds[1]), worlds[2])
	} else {
		w = NewOverlayWorld(worlds[0], NewOverlayWorld(worlds[1], worlds[2]))
	}
	vReach("stacked")
	// lookup: every value held anywhere, and a probe
	var values []uint64
	for _, fs := range layers {
		for _, f := range fs {
			values = append(values, f.value)
		}
	}
	values = append(values, uint64(vU8("probe")))
	for _, v := range values {
		id := b6.FeatureID{Type: b6.FeatureTypeRelation, Namespace: vhNS, Value: v}
		top, _ := vhTop(layers, v)
		f := w.FindFeatureByID(id)
		vAssert(w.HasFeatureWithID(id) == (top >= 0), "HasFeatureWithID: a feature exists iff some layer holds it")
		vAssert((f != nil) == (top >= 0), "FindFeatureByID: a feature exists iff some layer holds it")
		if f != nil && top >= 0 {
			vAssert(f.Get("layer").Value.String() == names[top], "lookup shows the topmost layer's version")
		}
	}
	// search
	fs := w.FindFeatures(b6.Tagged{Key: "#s", Value: b6.NewStringExpression("x")})
	var got []uint64
	for fs.Next() {
		id := fs.FeatureID()
		got = append(got, id.Value)
		vAssert(len(got) <= len(values)+1, "search is finite")
		top, _ := vhTop(layers, id.Value)
		if top >= 0 {
			vAssert(fs.Feature().Get("layer").Value.String() == names[top], "search yields the topmost layer's version")
		}
	}
	for i := range got {
		if i > 0 {
			vAssert(got[i-1] < got[i], "search results are in strictly increasing ID order (no duplicates)")
		}
		top, m := vhTop(layers, got[i])
		vAssert(top >= 0 && m, "search yields only features whose topmost version matches")
	}
	for _, v := range values[:len(values)-1] {
		top, m := vhTop(layers, v)
		if top >= 0 && m {
			in := false
			for _, g := range got {
				in = in || g == v
			}
			vAssert(in, "search yields every feature whose topmost version matches")
		}
	}
	// enumeration: each ID once, with the topmost version
	count := make([]int, len(values)-1)
	err := w.EachFeature(func(f b6.Feature, goroutine int) error {
		for i, v := range values[:len(values)-1] {
			if f.FeatureID().Value == v {
				count[i]++
				top, _ := vhTop(layers, v)
				vAssert(f.Get("layer").Value.String() == names[top], "enumeration shows the topmost layer's version")
			}
		}
		return nil
	}, &b6.EachFeatureOptions{})
	vAssert(err == nil, "enumeration succeeds")
	for i := range values[:len(values)-1] {
		// (a value held by several layers appears several times in values; every
		// callback for it is counted under each of those entries)
		vAssert(count[i] == 1, "every ID is enumerated exactly once")
	}
}
