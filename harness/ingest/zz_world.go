//go:build verif

package ingest

import (
	"diagonal.works/b6"
)

// Shared helpers of the world-level harnesses (C03, C12, C14, C16, C38).

// vhSeqEachIngestFeature replaces eachIngestFeature (a goroutine pool fed
// through a channel; its streaming protocol is C28's subject) by a loop over
// the feature map.
func vhSeqEachIngestFeature(each func(f Feature, goroutine int) error, f *FeaturesByID, r *FeatureReferencesByID, options *b6.EachFeatureOptions) error {
	for _, feature := range *f {
		if err := each(feature, 0); err != nil {
			return err
		}
	}
	return nil
}

func vhStubPools() {
	vStub("diagonal.works/b6/ingest.eachIngestFeature", vhSeqEachIngestFeature)
}

// geometry-less features: relations without members
func vhFeatureID(i int) b6.FeatureID {
	return b6.FeatureID{Type: b6.FeatureTypeRelation, Namespace: vhNS, Value: uint64(10 + i)}
}

// keys: #s is indexed with its value, @t is an indexed key, p is a plain tag
var vhKeys = []string{"#s", "@t", "p"}

// values of the indexed key #s are one of two concrete strings (they become
// search tokens, which the index orders); values of the other keys are
// symbolic bytes (only ever compared for equality: the solver decides)
var vhVals = []string{"x", "y"}

func vhValue(name string, key string) string {
	if key == "#s" {
		return vhVals[vChoice(name+"val", len(vhVals))]
	}
	return vStr(name+"sym", 1)
}

type vhTagsModel struct {
	keys   []string
	vals   []string
	member int // index of the feature this relation has as its only member, or -1
}

func (m *vhTagsModel) get(k string) (string, bool) {
	for i := range m.keys {
		if m.keys[i] == k {
			return m.vals[i], true
		}
	}
	return "", false
}

func (m *vhTagsModel) set(k, v string) {
	for i := range m.keys {
		if m.keys[i] == k {
			m.vals[i] = v
			return
		}
	}
	m.keys = append(m.keys, k)
	m.vals = append(m.vals, v)
}

func (m *vhTagsModel) remove(k string) {
	for i := range m.keys {
		if m.keys[i] == k {
			m.keys = append(append([]string{}, m.keys[:i]...), m.keys[i+1:]...)
			m.vals = append(append([]string{}, m.vals[:i]...), m.vals[i+1:]...)
			return
		}
	}
}

func (m *vhTagsModel) clone() *vhTagsModel {
	return &vhTagsModel{keys: append([]string{}, m.keys...), vals: append([]string{}, m.vals...), member: m.member}
}

// vhWorldModel: feature index -> tags (nil: the feature does not exist)
type vhWorldModel struct {
	f []*vhTagsModel
}

func (w *vhWorldModel) clone() *vhWorldModel {
	c := &vhWorldModel{f: make([]*vhTagsModel, len(w.f))}
	for i, t := range w.f {
		if t != nil {
			c.f[i] = t.clone()
		}
	}
	return c
}

// vhRandomFeature builds feature i with 0..2 tags with distinct keys from
// vhKeys and symbolic 1-byte values, and the model of its tags.
func vhRandomFeature(i int, name string) (*RelationFeature, *vhTagsModel) {
	r := NewRelationFeature(0)
	r.RelationID = vhFeatureID(i).ToRelationID()
	m := &vhTagsModel{member: -1}
	if vBool(name + "hasmember") {
		// the next feature (cyclically) is its member: chains and a 3-cycle can arise
		m.member = (i + 1) % 3
		r.Members = []b6.RelationMember{{ID: vhFeatureID(m.member)}}
	}
	n := vChoice(name+"ntags", 2+vTier()) // 0..1 tags (quick) / 0..2
	for j := 0; j < n; j++ {
		k := vhKeys[vChoice(name+"key", len(vhKeys))]
		if _, dup := m.get(k); dup {
			vAssume(false)
		}
		v := vhValue(name, k)
		r.AddTag(b6.Tag{Key: k, Value: b6.NewStringExpression(v)})
		m.set(k, v)
	}
	return r, m
}

// vhCheckWorld compares every read the statement lists with the model.
func vhCheckWorld(w b6.World, m *vhWorldModel, what string) {
	for i, tags := range m.f {
		id := vhFeatureID(i)
		f := w.FindFeatureByID(id)
		vAssert(w.HasFeatureWithID(id) == (tags != nil), what+": existence (HasFeatureWithID)")
		vAssert((f != nil) == (tags != nil), what+": existence (FindFeatureByID)")
		if f == nil || tags == nil {
			continue
		}
		for _, k := range vhKeys {
			got := f.Get(k)
			want, ok := tags.get(k)
			vAssert(got.IsValid() == ok, what+": a key is present exactly when the model has it")
			if ok && got.IsValid() {
				vAssert(got.Value.String() == want, what+": lookup by ID shows the model's value")
			}
		}
		all := f.AllTags()
		vAssert(len(all) == len(tags.keys), what+": AllTags has exactly the model's tags")
		for _, t := range all {
			want, ok := tags.get(t.Key)
			vAssert(ok, what+": AllTags has no other key")
			if ok {
				vAssert(t.Value.String() == want, what+": AllTags shows the model's value")
			}
		}
	}
	// reference queries: the features from which x is reachable through the
	// current memberships
	for x := range m.f {
		reach := make([]bool, len(m.f))
		for round := 0; round < len(m.f); round++ {
			for i, t := range m.f {
				if t != nil && t.member >= 0 && (t.member == x || reach[t.member]) {
					reach[i] = true
				}
			}
		}
		seen := make([]int, len(m.f))
		refs := w.FindReferences(vhFeatureID(x))
		n := 0
		for refs.Next() {
			n++
			vAssert(n <= 2*len(m.f)+2, what+": FindReferences is finite")
			for i := range m.f {
				if refs.FeatureID() == vhFeatureID(i) {
					seen[i]++
				}
			}
		}
		for i := range m.f {
			if reach[i] {
				vAssert(seen[i] == 1, what+": FindReferences returns every current referrer once")
			} else {
				vAssert(seen[i] == 0, what+": FindReferences returns no feature that does not reference it")
			}
		}
	}
	// tag search: #s=v for a symbolic v, and the key-only token @t
	for _, v := range vhVals {
		v := v
		vhCheckSearch(w, m, b6.Tagged{Key: "#s", Value: b6.NewStringExpression(v)}, func(t *vhTagsModel) bool {
			got, ok := t.get("#s")
			return ok && got == v
		}, what+": search #s=v")
	}
	vhCheckSearch(w, m, b6.Keyed{Key: "@t"}, func(t *vhTagsModel) bool {
		_, ok := t.get("@t")
		return ok
	}, what+": search @t")
	vhCheckSearch(w, m, b6.Keyed{Key: "#s"}, func(t *vhTagsModel) bool {
		_, ok := t.get("#s")
		return ok
	}, what+": search key #s")
	// enumeration
	vhStubPools()
	seen := make([]int, len(m.f))
	err := w.EachFeature(func(f b6.Feature, goroutine int) error {
		for i := range m.f {
			if f.FeatureID() == vhFeatureID(i) {
				seen[i]++
				if m.f[i] != nil {
					vAssert(len(f.AllTags()) == len(m.f[i].keys), what+": enumeration shows the model's tags")
					for _, t := range f.AllTags() {
						want, ok := m.f[i].get(t.Key)
						vAssert(ok && t.Value.String() == want, what+": enumeration shows the model's values")
					}
				}
			}
		}
		return nil
	}, &b6.EachFeatureOptions{})
	vAssert(err == nil, what+": enumeration succeeds")
	for i := range m.f {
		if m.f[i] != nil {
			vAssert(seen[i] == 1, what+": every feature is enumerated exactly once")
		} else {
			vAssert(seen[i] == 0, what+": absent features are not enumerated")
		}
	}
}

func vhCheckSearch(w b6.World, m *vhWorldModel, q b6.Query, matches func(t *vhTagsModel) bool, what string) {
	fs := w.FindFeatures(q)
	seen := make([]int, len(m.f))
	var last b6.FeatureID
	n := 0
	for fs.Next() {
		n++
		vAssert(n <= 2*len(m.f)+2, what+": finite")
		id := fs.FeatureID()
		if n > 1 {
			vAssert(last.Less(id), what+": strictly increasing ID order")
		}
		last = id
		for i := range m.f {
			if id == vhFeatureID(i) {
				seen[i]++
			}
		}
	}
	for i := range m.f {
		want := m.f[i] != nil && matches(m.f[i])
		if want {
			vAssert(seen[i] == 1, what+": every matching feature is returned once")
		} else {
			vAssert(seen[i] == 0, what+": no other feature is returned")
		}
	}
}

// vhEdit applies one symbolic edit (AddFeature / AddTag / RemoveTag) to the
// world and to the model.
func vhEdit(w MutableWorld, m *vhWorldModel, name string) {
	target := vChoice(name+"target", len(m.f))
	id := vhFeatureID(target)
	switch vChoice(name+"op", 3) {
	case 0:
		f, tags := vhRandomFeature(target, name)
		err := w.AddFeature(f)
		vAssert(err == nil, "AddFeature of a valid feature succeeds")
		m.f[target] = tags
	case 1:
		k := vhKeys[vChoice(name+"tagkey", len(vhKeys))]
		v := vhValue(name+"tag", k)
		err := w.AddTag(id, b6.Tag{Key: k, Value: b6.NewStringExpression(v)})
		if m.f[target] != nil {
			vAssert(err == nil, "AddTag on an existing feature succeeds")
			m.f[target].set(k, v)
		} else {
			vAssert(err != nil, "AddTag on a missing feature is an error")
		}
	case 2:
		k := vhKeys[vChoice(name+"tagkey", len(vhKeys))]
		w.RemoveTag(id, k)
		if m.f[target] != nil {
			m.f[target].remove(k)
		}
	}
}

// vhBaseWorld: a BasicMutableWorld holding features 0 and 1 (feature 2 does
// not exist in the base).
func vhBaseWorld() (*BasicMutableWorld, *vhWorldModel) {
	base := NewBasicMutableWorld()
	m := &vhWorldModel{f: make([]*vhTagsModel, 3)}
	for i := 0; i < 2; i++ {
		var f *RelationFeature
		var tags *vhTagsModel
		if i == 1 && vTier() == 0 {
			// quick: the second base feature is fixed (#s=x)
			f = NewRelationFeature(0)
			f.RelationID = vhFeatureID(i).ToRelationID()
			f.AddTag(b6.Tag{Key: "#s", Value: b6.NewStringExpression("x")})
			tags = &vhTagsModel{keys: []string{"#s"}, vals: []string{"x"}, member: -1}
		} else {
			f, tags = vhRandomFeature(i, "base")
		}
		if err := base.AddFeature(f); err != nil {
			vAssert(false, "base AddFeature")
		}
		m.f[i] = tags
	}
	return base, m
}
