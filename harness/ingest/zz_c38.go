//go:build verif

package ingest

import (
	"diagonal.works/b6"
)

// C38: callers' feature values are isolated from the world, and clones are
// independent of their originals.

func vhID(t b6.FeatureType, v uint64) b6.FeatureID {
	return b6.FeatureID{Type: t, Namespace: vhNS, Value: v}
}

// vhMutateRelation changes the caller's relation through the Feature API and
// its exported fields: which change is a decision, new IDs/values symbolic.
func vhMutateRelation(r *RelationFeature, name string) {
	switch vChoice(name+"mut", 4) {
	case 0:
		if len(r.Members) > 0 {
			r.Members[vChoice(name+"idx", len(r.Members))].ID = vhID(b6.FeatureTypeRelation, uint64(vU8(name+"newid")))
		}
	case 1:
		r.ModifyOrAddTag(b6.Tag{Key: "k", Value: b6.NewStringExpression(vStr(name+"newval", 1))})
	case 2:
		r.RemoveTag("k")
	case 3:
		r.Members = append(r.Members, b6.RelationMember{ID: vhID(b6.FeatureTypeRelation, 99)})
		r.AddTag(b6.Tag{Key: "extra", Value: b6.NewStringExpression("e")})
	}
}

type vhRelationView struct {
	members []uint64
	k       string
	hasK    bool
	ntags   int
}

func vhViewRelation(f b6.Feature) vhRelationView {
	var v vhRelationView
	r := f.(b6.RelationFeature)
	for i := 0; i < r.Len(); i++ {
		v.members = append(v.members, r.Member(i).ID.Value)
	}
	t := f.Get("k")
	v.hasK = t.IsValid()
	if v.hasK {
		v.k = t.Value.String()
	}
	v.ntags = len(f.AllTags())
	return v
}

func vhSameRelationView(a, b vhRelationView, what string) {
	vAssert(len(a.members) == len(b.members), what+": member count")
	ok := true
	for i := range a.members {
		if i < len(b.members) {
			ok = vAnd(ok, a.members[i] == b.members[i])
		}
	}
	vAssert(ok, what+": members")
	vAssert(a.hasK == b.hasK && a.ntags == b.ntags, what+": tag set")
	if a.hasK && b.hasK {
		vAssert(a.k == b.k, what+": tag value")
	}
}

func vhNewRelation(name string) *RelationFeature {
	n := vChoice(name+"n", 3)
	r := NewRelationFeature(n)
	r.RelationID = vhID(b6.FeatureTypeRelation, 1).ToRelationID()
	for i := 0; i < n; i++ {
		r.Members[i] = b6.RelationMember{ID: vhID(b6.FeatureTypeRelation, uint64(vU8(name+"member")))}
	}
	if vBool(name + "hask") {
		r.AddTag(b6.Tag{Key: "k", Value: b6.NewStringExpression(vStr(name+"val", 1))})
	}
	r.AddTag(b6.Tag{Key: "j", Value: b6.NewStringExpression("j")})
	return r
}

// Relations: Clone is independent both ways; a world (basic or overlay, first
// add or replacement) is unaffected by later changes to the caller's value.
//
//vh:steps=6000000 split=5
func VH_C38_Relations() {
	r := vhNewRelation("r")
	if vBool("clone") {
		c := r.Clone().(*RelationFeature)
		before := vhViewRelation(WrapFeature(r, NewFeaturesByID()))
		cbefore := vhViewRelation(WrapFeature(c, NewFeaturesByID()))
		vhSameRelationView(before, cbefore, "a clone equals its original")
		if vBool("mutateclone") {
			vhMutateRelation(c, "m")
			vReach("clone-mutated")
			vhSameRelationView(vhViewRelation(WrapFeature(r, NewFeaturesByID())), before, "changing a clone leaves the original alone")
		} else {
			vhMutateRelation(r, "m")
			vReach("original-mutated")
			vhSameRelationView(vhViewRelation(WrapFeature(c, NewFeaturesByID())), cbefore, "changing the original leaves a clone alone")
		}
		return
	}
	var w MutableWorld = NewBasicMutableWorld()
	if vBool("overlay") {
		w = NewMutableOverlayWorld(NewBasicMutableWorld())
	}
	if vBool("replace") {
		w.AddFeature(vhNewRelation("old"))
	}
	vAssert(w.AddFeature(r) == nil, "AddFeature")
	before := vhViewRelation(w.FindFeatureByID(r.FeatureID()))
	vhMutateRelation(r, "m")
	vReach("caller-mutated")
	vhSameRelationView(vhViewRelation(w.FindFeatureByID(r.FeatureID())), before, "changing the caller's value after AddFeature leaves the world alone")
}

func vhNewCollection(name string) *CollectionFeature {
	c := &CollectionFeature{CollectionID: vhID(b6.FeatureTypeCollection, 1).ToCollectionID()}
	n := vChoice(name+"n", 3)
	for i := 0; i < n; i++ {
		c.Keys = append(c.Keys, int(vU8(name+"key")))
		c.Values = append(c.Values, int(vU8(name+"value")))
	}
	c.AddTag(b6.Tag{Key: "k", Value: b6.NewStringExpression(vStr(name+"val", 1))})
	return c
}

type vhCollectionView struct {
	keys, values []int
	k            string
	ntags        int
}

func vhViewCollection(f b6.Feature) vhCollectionView {
	var v vhCollectionView
	c := f.(b6.CollectionFeature)
	it := c.BeginUntyped()
	for {
		ok, err := it.Next()
		if !ok || err != nil {
			break
		}
		v.keys = append(v.keys, it.Key().(int))
		v.values = append(v.values, it.Value().(int))
		vAssert(len(v.keys) < 10, "collection iteration terminates")
	}
	t := f.Get("k")
	if t.IsValid() {
		v.k = t.Value.String()
	}
	v.ntags = len(f.AllTags())
	return v
}

func vhSameCollectionView(a, b vhCollectionView, what string) {
	vAssert(len(a.keys) == len(b.keys), what+": item count")
	ok := true
	for i := range a.keys {
		if i < len(b.keys) {
			ok = vAll(ok, a.keys[i] == b.keys[i], a.values[i] == b.values[i])
		}
	}
	vAssert(ok, what+": keys and values")
	vAssert(a.ntags == b.ntags, what+": tag count")
	vAssert(a.k == b.k, what+": tag value")
}

func vhMutateCollection(c *CollectionFeature, name string) {
	switch vChoice(name+"mut", 4) {
	case 0:
		if len(c.Keys) > 0 {
			c.Keys[vChoice(name+"idx", len(c.Keys))] = int(vU8(name + "newkey"))
		}
	case 1:
		if len(c.Values) > 0 {
			c.Values[vChoice(name+"idx", len(c.Values))] = int(vU8(name + "newvalue"))
		}
	case 2:
		c.ModifyOrAddTag(b6.Tag{Key: "k", Value: b6.NewStringExpression(vStr(name+"newval", 1))})
	case 3:
		c.RemoveTag("k")
	}
}

// Collections.
//
//vh:steps=6000000 split=5
func VH_C38_Collections() {
	c := vhNewCollection("c")
	if vBool("clone") {
		cl := c.Clone().(*CollectionFeature)
		before := vhViewCollection(WrapFeature(c, NewFeaturesByID()))
		cbefore := vhViewCollection(WrapFeature(cl, NewFeaturesByID()))
		vhSameCollectionView(before, cbefore, "a clone equals its original")
		if vBool("mutateclone") {
			vhMutateCollection(cl, "m")
			vReach("clone-mutated")
			vhSameCollectionView(vhViewCollection(WrapFeature(c, NewFeaturesByID())), before, "changing a clone leaves the original alone")
		} else {
			vhMutateCollection(c, "m")
			vReach("original-mutated")
			vhSameCollectionView(vhViewCollection(WrapFeature(cl, NewFeaturesByID())), cbefore, "changing the original leaves a clone alone")
		}
		return
	}
	var w MutableWorld = NewBasicMutableWorld()
	if vBool("overlay") {
		w = NewMutableOverlayWorld(NewBasicMutableWorld())
	}
	if vBool("replace") {
		w.AddFeature(vhNewCollection("old"))
	}
	vAssert(w.AddFeature(c) == nil, "AddFeature")
	before := vhViewCollection(w.FindFeatureByID(c.FeatureID()))
	vhMutateCollection(c, "m")
	vReach("caller-mutated")
	vhSameCollectionView(vhViewCollection(w.FindFeatureByID(c.FeatureID())), before, "changing the caller's value after AddFeature leaves the world alone")
}

// Areas given by path IDs (AreaMembers): clones and the world's copy do not
// share the lists of path IDs.
//
//vh:steps=6000000 split=4
func VH_C38_AreaMembers() {
	a := NewAreaFeature(1 + vChoice("npolygons", 2))
	a.AreaID = vhID(b6.FeatureTypeArea, 2).ToAreaID()
	for i := 0; i < a.Len(); i++ {
		ids := make([]b6.FeatureID, 1+vChoice("npaths", 2))
		for j := range ids {
			ids[j] = vhID(b6.FeatureTypePath, uint64(vU8("path")))
		}
		a.SetPathIDs(i, ids)
	}
	view := func(x *AreaFeature) []uint64 {
		var out []uint64
		for i := 0; i < x.Len(); i++ {
			ids, _ := x.PathIDs(i)
			out = append(out, uint64(1000+len(ids)))
			for _, id := range ids {
				out = append(out, id.Value)
			}
		}
		return out
	}
	same := func(p, q []uint64, what string) {
		vAssert(len(p) == len(q), what+": shape")
		ok := true
		for i := range p {
			if i < len(q) {
				ok = vAnd(ok, p[i] == q[i])
			}
		}
		vAssert(ok, what+": path ids")
	}
	c := a.CloneAreaFeature()
	before, cbefore := view(a), view(c)
	same(before, cbefore, "a clone equals its original")
	i := vChoice("polygon", a.Len())
	j := vChoice("slot", 3)
	id := vhID(b6.FeatureTypePath, uint64(vU8("newpath")))
	if vBool("mutateclone") {
		c.SetPathID(i, j, id)
		vReach("clone-mutated")
		same(view(a), before, "changing a clone's path ids leaves the original alone")
	} else {
		a.SetPathID(i, j, id)
		vReach("original-mutated")
		same(view(c), cbefore, "changing the original's path ids leaves a clone alone")
	}
	// MergeFrom copies
	d := NewAreaFeature(0)
	d.MergeFromAreaFeature(a)
	dbefore := view(d)
	a.SetPathID(vChoice("polygon2", a.Len()), 0, vhID(b6.FeatureTypePath, uint64(vU8("newpath2"))))
	same(view(d), dbefore, "changing the source after MergeFrom leaves the destination alone")
}
