//go:build verif

package ingest

import (
	"diagonal.works/b6"
)

// C24: collection features answer key lookups like a linear scan.
//
// A collection feature with 0..3 (thorough 4) symbolic int keys (duplicates
// allowed) is either sorted with Sort() or left unsorted, optionally stored in
// a world on top of an earlier version of the same feature (sorted or not),
// read back, and FindValue / FindValues are compared with a scan.
//
//vh:steps=6000000 split=5
func VH_C24_CollectionFeatureLookup() {
	mk := func(name string, sorted bool) *CollectionFeature {
		c := &CollectionFeature{CollectionID: vhID(b6.FeatureTypeCollection, 7).ToCollectionID()}
		n := vChoice(name+"n", 4+vTier())
		for i := 0; i < n; i++ {
			c.Keys = append(c.Keys, int(vU8(name+"key")&7))
			c.Values = append(c.Values, 100+i)
		}
		if sorted {
			c.Sort()
		}
		return c
	}
	c := mk("c", vBool("sorted"))
	var read b6.CollectionFeature = WrapCollectionFeature(c, NewFeaturesByID())
	if vBool("viaworld") {
		var w MutableWorld = NewBasicMutableWorld()
		if vBool("overlay") {
			w = NewMutableOverlayWorld(NewBasicMutableWorld())
		}
		if vBool("replace") {
			vAssert(w.AddFeature(mk("old", vBool("oldsorted"))) == nil, "AddFeature (old)")
		}
		vAssert(w.AddFeature(c) == nil, "AddFeature")
		read = w.FindFeatureByID(c.FeatureID()).(b6.CollectionFeature)
	}
	vReach("lookup")
	key := int(vU8("probe") & 7)
	var want []int
	for i := range c.Keys {
		if c.Keys[i].(int) == key {
			want = append(want, c.Values[i].(int))
		}
	}
	v, ok := read.FindValue(key)
	vAssert(ok == (len(want) > 0), "FindValue finds a key exactly when a scan does")
	if ok && len(want) > 0 {
		in := false
		for _, x := range want {
			in = in || v.(int) == x
		}
		vAssert(in, "FindValue returns a value stored under the key")
	}
	vs := read.FindValues(key, nil)
	vAssert(len(vs) == len(want), "FindValues returns every value stored under the key")
	for _, got := range vs {
		in := false
		for _, x := range want {
			in = in || got.(int) == x
		}
		vAssert(in, "FindValues returns only values stored under the key")
	}
}
