//go:build verif

package ingest

import (
	"diagonal.works/b6"
)

// C14: a snapshot answers every query the same way for its whole lifetime, no
// matter what is later edited in the live world, while the live world reflects
// the edits.
//
// Base (two features), 0..1 edits on the overlay, Snapshot(), then 1..2
// (thorough: ..3) edits on the live world - on features that exist only in
// the snapshot layer, only in the base, in both, or nowhere yet.
//
//vh:steps=8000000 split=6 wall.thorough=3000
func VH_C14_OverlaySnapshot() {
	base, m := vhBaseWorld()
	w := NewMutableOverlayWorld(base)
	if vBool("editbefore") {
		vhEdit(w, m, "pre")
	}
	snap := w.Snapshot()
	frozen := m.clone()
	vhCheckWorld(snap, frozen, "snapshot when taken")
	n := 1 + vChoice("nops", 1+vTier())
	for i := 0; i < n; i++ {
		vhEdit(w, m, "post")
	}
	vReach("edited")
	vhCheckWorld(snap, frozen, "snapshot after live edits")
	vhCheckWorld(w, m, "live world after edits")
}

// Snapshot of a snapshot: two generations stay frozen.
//
//vh:steps=8000000 split=6 tier=thorough wall.thorough=3000
func VH_C14_NestedSnapshots() {
	base, m := vhBaseWorld()
	w := NewMutableOverlayWorld(base)
	vhEdit(w, m, "a")
	s1 := w.Snapshot()
	f1 := m.clone()
	vhEdit(w, m, "b")
	s2 := w.Snapshot()
	f2 := m.clone()
	vhEdit(w, m, "c")
	vReach("edited")
	vhCheckWorld(s1, f1, "first snapshot")
	vhCheckWorld(s2, f2, "second snapshot")
	vhCheckWorld(w, m, "live world")
}

// MutableTagsOverlayWorld.Snapshot: tag-only overlay.
//
//vh:steps=8000000 split=5
func VH_C14_TagsOverlaySnapshot() {
	base, m := vhBaseWorld()
	w := NewMutableTagsOverlayWorld(base)
	edit := func(name string) {
		target := vChoice(name+"target", 2)
		k := "p"
		if vBool(name + "other") {
			k = "q"
		}
		v := vStr(name+"val", 1)
		w.AddTag(vhFeatureID(target), b6.Tag{Key: k, Value: b6.NewStringExpression(v)})
		m.f[target].set(k, v)
	}
	if vBool("editbefore") {
		edit("pre")
	}
	snap := w.Snapshot()
	frozen := m.clone()
	n := 1 + vChoice("nops", 2)
	for i := 0; i < n; i++ {
		edit("post")
	}
	vReach("edited")
	for i := 0; i < 2; i++ {
		for _, k := range []string{"p", "q", "#s"} {
			got := snap.FindFeatureByID(vhFeatureID(i)).Get(k)
			want, ok := frozen.f[i].get(k)
			vAssert(got.IsValid() == ok, "tags snapshot: key presence is frozen")
			if ok && got.IsValid() {
				vAssert(got.Value.String() == want, "tags snapshot: value is frozen")
			}
			live := w.FindFeatureByID(vhFeatureID(i)).Get(k)
			lw, lok := m.f[i].get(k)
			vAssert(live.IsValid() == lok, "tags overlay: the live world has the edit")
			if lok && live.IsValid() {
				vAssert(live.Value.String() == lw, "tags overlay: the live world shows the new value")
			}
		}
	}
}
