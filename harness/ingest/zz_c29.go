//go:build verif

package ingest

import (
	"context"

	"diagonal.works/b6"
	"diagonal.works/b6/osm"
)

// C29: OSM data maps to features by fixed rules.
//
// Three nodes, two ways (each open over nodes 1,2 or closed over 1,2,3,1; IDs
// symbolic 2-bit values; the first optionally carrying an OSM tag with key "path"), 1..2 relations (multipolygon or not; symbolic 2-bit
// IDs, so a relation may share its number with a way; 1..2 members of any
// element type with symbolic 2-bit refs and a role among outer/inner/empty)
// are read through NewFeatureSourceFromPBF + pbfSource.Read and the emitted
// features are compared with the rules of the statement.

type vhEmitted struct {
	points    []*GenericFeature
	paths     []*GenericFeature
	areas     []*AreaFeature
	relations []*RelationFeature
}

func (e *vhEmitted) emit(f Feature, goroutine int) error {
	switch f := f.Clone().(type) { // the source reuses its buffers
	case *GenericFeature:
		if f.FeatureID().Type == b6.FeatureTypePoint {
			e.points = append(e.points, f)
		} else {
			e.paths = append(e.paths, f)
		}
	case *AreaFeature:
		e.areas = append(e.areas, f)
	case *RelationFeature:
		e.relations = append(e.relations, f)
	}
	return nil
}

//vh:steps=8000000 split=6 wall.thorough=3000
func VH_C29_OSMMapping() {
	src := &MemoryOSMSource{}
	for i := 1; i <= 3; i++ {
		src.Nodes = append(src.Nodes, osm.Node{ID: osm.NodeID(i), Location: osm.LatLng{Lat: 51.5 + float64(i)/100, Lng: -0.1}, Tags: osm.Tags{{Key: "amenity", Value: "cafe"}}})
	}
	nways := 2
	wayID := make([]int64, nways)
	closed := make([]bool, nways)
	for i := 0; i < nways; i++ {
		wayID[i] = int64(vU8("way") & 3)
		for j := 0; j < i; j++ {
			vAssume(wayID[i] != wayID[j])
		}
		closed[i] = vBool("closed")
		w := osm.Way{ID: osm.WayID(wayID[i]), Tags: osm.Tags{{Key: "highway", Value: "h"}, {Key: "name", Value: "n"}}}
		if i == 0 && vBool("pathkey") {
			// an OSM tag whose key collides with the tag b6 keeps geometry in
			w.Tags = append(w.Tags, osm.Tag{Key: b6.PathTag, Value: "yes"})
		}
		if closed[i] {
			w.Nodes = []osm.NodeID{1, 2, 3, 1}
		} else {
			w.Nodes = []osm.NodeID{1, 2}
		}
		src.Ways = append(src.Ways, w)
	}
	nrels := 1 + vChoice("nrels", 1+vTier())
	relID := make([]int64, nrels)
	multi := make([]bool, nrels)
	type member struct {
		t    osm.ElementType
		ref  int64
		role string
	}
	members := make([][]member, nrels)
	roles := []string{"outer", "inner", ""}
	for r := 0; r < nrels; r++ {
		relID[r] = int64(vU8("rel") & 3)
		for j := 0; j < r; j++ {
			vAssume(relID[r] != relID[j])
		}
		multi[r] = vBool("multipolygon")
		rel := osm.Relation{ID: osm.RelationID(relID[r]), Tags: osm.Tags{{Key: "route", Value: "bus"}}}
		if multi[r] {
			rel.Tags = osm.Tags{{Key: "type", Value: "multipolygon"}, {Key: "landuse", Value: "grass"}}
		}
		nm := 1 + vChoice("nmembers", 1+vTier())
		if multi[r] {
			nm = 1 + vChoice("nmembersmp", 2) // outer + inner
		}
		for k := 0; k < nm; k++ {
			m := member{t: osm.ElementTypeWay, ref: int64(vU8("mref") & 3), role: roles[vChoice("role", 3)]}
			if !multi[r] { // multipolygons are made of ways
				m.t = []osm.ElementType{osm.ElementTypeNode, osm.ElementTypeWay, osm.ElementTypeRelation}[vChoice("mtype", 3)]
			}
			members[r] = append(members[r], m)
			rel.Members = append(rel.Members, osm.Member{Type: m.t, ID: osm.AnyID(m.ref), Role: m.role})
		}
		src.Relations = append(src.Relations, rel)
	}
	s, err := NewFeatureSourceFromPBF(src, &BuildOptions{Cores: 1}, context.Background())
	vAssert(err == nil, "NewFeatureSourceFromPBF")
	e := &vhEmitted{}
	err = s.Read(ReadOptions{Goroutines: 1}, e.emit, context.Background())
	vAssert(err == nil, "Read")
	vReach("read")

	isClosedWay := func(ref int64) bool {
		for i := range wayID {
			if wayID[i] == ref && closed[i] {
				return true
			}
		}
		return false
	}
	isMultipolygon := func(ref int64) bool {
		for i := range relID {
			if relID[i] == ref && multi[i] {
				return true
			}
		}
		return false
	}

	// nodes -> points
	vAssert(len(e.points) == 3, "each node becomes a point")
	for i, p := range e.points {
		vAssert(p.FeatureID() == FromOSMNodeID(osm.NodeID(i+1)), "point id")
		vAssert(p.Get("#amenity").IsValid(), "searchable keys follow the mapping")
	}
	// ways -> paths (+ areas for closed ways)
	vAssert(len(e.paths) == nways, "each way becomes a path")
	nclosed := 0
	for i, p := range e.paths {
		vAssert(p.FeatureID() == FromOSMWayID(osm.WayID(wayID[i])), "path id")
		refs := p.References()
		want := []osm.NodeID{1, 2}
		if closed[i] {
			want = []osm.NodeID{1, 2, 3, 1}
			nclosed++
		}
		vAssert(len(refs) == len(want), "a path runs over the way's nodes")
		for j := range refs {
			if j < len(want) {
				vAssert(refs[j].Source() == FromOSMNodeID(want[j]), "in order")
			}
		}
		if closed[i] {
			vAssert(len(p.AllTags()) == 1, "the path of a closed way keeps no tags of its own")
			vAssert(p.GeometryLen() == len(want), "a path runs over the way's nodes")
		} else {
			vAssert(p.Get("#highway").IsValid() && p.Get("name").IsValid(), "an open way's path carries the way's tags")
			vAssert(p.GeometryLen() == len(want), "a path runs over the way's nodes")
		}
	}
	// areas: closed ways and complete multipolygons
	for i := range wayID {
		n := 0
		for _, a := range e.areas {
			if a.AreaID == AreaIDFromOSMWayID(osm.WayID(wayID[i])) {
				n++
				vAssert(a.Get("#highway").IsValid() && a.Get("name").IsValid(), "the area of a closed way carries the way's tags")
				ids, ok := a.PathIDs(0)
				vAssert(a.Len() == 1 && ok && len(ids) == 1 && ids[0] == FromOSMWayID(osm.WayID(wayID[i])), "the area of a closed way is bounded by its path")
			}
		}
		if closed[i] {
			vAssert(n == 1, "each closed way additionally becomes an area")
		} else {
			vAssert(n == 0, "an open way does not become an area")
		}
	}
	for r := range relID {
		na, nr := 0, 0
		for _, a := range e.areas {
			if a.AreaID == AreaIDFromOSMRelationID(osm.RelationID(relID[r])) {
				na++
				// polygons follow the outer/inner members
				var want [][]int64
				for _, m := range members[r] {
					if m.role != "inner" || len(want) == 0 {
						want = append(want, nil)
					}
					want[len(want)-1] = append(want[len(want)-1], m.ref)
				}
				vAssert(a.Len() == len(want), "a multipolygon's polygons follow its outer members")
				for i := 0; i < a.Len() && i < len(want); i++ {
					ids, ok := a.PathIDs(i)
					vAssert(ok && len(ids) == len(want[i]), "a polygon's loops follow its outer/inner members")
					for j := range ids {
						if j < len(want[i]) {
							vAssert(ids[j] == FromOSMWayID(osm.WayID(want[i][j])), "loop path id")
						}
					}
				}
				vAssert(a.Get("#landuse").IsValid(), "the multipolygon's tags")
			}
		}
		for _, rel := range e.relations {
			if rel.RelationID == FromOSMRelationID(osm.RelationID(relID[r])) {
				nr++
				vAssert(len(rel.Members) == len(members[r]), "every member is kept")
				for k, m := range members[r] {
					if k >= len(rel.Members) {
						break
					}
					var want b6.FeatureID
					switch m.t {
					case osm.ElementTypeNode:
						want = FromOSMNodeID(osm.NodeID(m.ref))
					case osm.ElementTypeWay:
						if isClosedWay(m.ref) {
							want = AreaIDFromOSMWayID(osm.WayID(m.ref)).FeatureID()
						} else {
							want = FromOSMWayID(osm.WayID(m.ref))
						}
					case osm.ElementTypeRelation:
						if isMultipolygon(m.ref) {
							want = AreaIDFromOSMRelationID(osm.RelationID(m.ref)).FeatureID()
						} else {
							want = FromOSMRelationID(osm.RelationID(m.ref)).FeatureID()
						}
					}
					vAssert(rel.Members[k].ID == want, "a relation's member points at the feature the element became (areas for closed ways and multipolygons)")
					vAssert(rel.Members[k].Role == m.role, "member role")
				}
				vAssert(rel.Get("#route").IsValid(), "the relation's tags")
			}
		}
		if multi[r] {
			complete := true
			for _, m := range members[r] {
				complete = complete && isClosedWay(m.ref)
			}
			vAssert(nr == 0, "a multipolygon relation does not become a relation")
			if complete {
				vAssert(na == 1, "a multipolygon relation of closed ways becomes an area")
			}
		} else {
			vAssert(nr == 1 && na == 0, "every other relation becomes a relation")
		}
	}
	_ = nclosed
}
