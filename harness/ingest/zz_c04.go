//go:build verif

package ingest

import (
	"diagonal.works/b6"
	"github.com/golang/geo/s2"
)

// C04: the covering that indexes an area is the union of the coverings of all
// of its polygons (the per-polygon RegionCoverer result is trusted and
// replaced by a harness-chosen cell per polygon).
//
//vh:steps=6000000 novalidate
//vh:assume[C04] s2.RegionCoverer.Covering of one polygon is replaced by a fixed, distinct cell per polygon
func VH_C04_AreaCoveringIsUnionOfPolygonCoverings() {
	cellOf := map[*s2.Polygon]s2.CellID{}
	vStub("(*github.com/golang/geo/s2.RegionCoverer).Covering", func(rc *s2.RegionCoverer, region s2.Region) s2.CellUnion {
		if p, ok := region.(*s2.Polygon); ok {
			return s2.CellUnion{cellOf[p]}
		}
		return s2.CellUnion{}
	})
	n := 1 + vChoice("polygons", 3)
	a := NewAreaFeature(n)
	a.AreaID = vhAreaID.ToAreaID()
	var want []s2.CellID
	for i := 0; i < n; i++ {
		p := &s2.Polygon{}
		// disjoint level-10 cells on different faces
		c := s2.CellIDFromFace(i).ChildBeginAtLevel(10)
		cellOf[p] = c
		want = append(want, c)
		a.SetPolygon(i, p)
	}
	features := NewFeaturesByID()
	features.AddFeature(a)
	f := features.FindFeatureByID(a.FeatureID())
	covering := b6.Covering(f.(b6.Geometry), s2.RegionCoverer{MaxLevel: 16, MaxCells: 5})
	vReach("covered")
	for _, c := range want {
		vAssert(covering.ContainsCellID(c), "the covering of an area contains the covering of every one of its polygons")
	}
	vAssert(len(covering) == n, "and nothing else")
}
