//go:build verif

package compact

import (
	"errors"

	"diagonal.works/b6"
	"diagonal.works/b6/ingest"
)

// C37 (compact build): the Validator emits an area exactly once, and only
// when every path it names has arrived and is valid, whatever the arrival
// order of paths and areas. ingest.ValidatePath (S2 loop geometry) is replaced
// by a symbolic verdict per arrival.

func vhC37PathID(i int) b6.FeatureID {
	return b6.FeatureID{Type: b6.FeatureTypePath, Namespace: "ns", Value: uint64(i)}
}

//vh:steps=8000000 split=5 novalidate
//vh:assume[C37] ingest.ValidatePath is replaced by an arbitrary verdict (valid / invalid) per path arrival
func VH_C37_ValidatorEmitsAreasOnce() {
	verdicts := map[uint64]bool{}
	vStub("diagonal.works/b6/ingest.ValidatePath", func(p b6.PhysicalFeature, o *ingest.ValidateOptions, features b6.LocationsByID) error {
		if verdicts[p.FeatureID().Value] {
			return nil
		}
		return errors.New("invalid path")
	})
	v := NewValidator(nil)
	// areas: A0 on one or two of the paths 0,1; A1 on path 1 or 2
	areaPaths := [][]int{{0}, {1}}
	if vBool("a0two") {
		areaPaths[0] = []int{0, 1}
	}
	if vBool("a1other") {
		areaPaths[1] = []int{2}
	}
	mkArea := func(j int) *ingest.AreaFeature {
		a := ingest.NewAreaFeature(1)
		a.AreaID = b6.AreaID{Namespace: "ns", Value: uint64(j)}
		var ids []b6.FeatureID
		for _, p := range areaPaths[j] {
			ids = append(ids, vhC37PathID(p))
		}
		a.SetPathIDs(0, ids)
		return a
	}
	emitted := make([]int, 2)
	pathEmitted := make([]int, 3)
	arrived := make([]bool, 3) // last verdict of each path that has arrived
	valid := make([]bool, 3)
	areaArrived := make([]bool, 2)
	count := func(fs []ingest.Feature) {
		for _, f := range fs {
			if f.FeatureID().Type == b6.FeatureTypeArea {
				emitted[f.FeatureID().Value]++
			} else {
				pathEmitted[f.FeatureID().Value]++
			}
		}
	}
	n := 2 + vChoice("events", 3+vTier())
	for e := 0; e < n; e++ {
		if vBool("isarea") {
			j := vChoice("area", 2)
			vAssume(!areaArrived[j]) // each area arrives once
			areaArrived[j] = true
			count(v.ValidateArea(mkArea(j), nil))
		} else {
			i := vChoice("path", 3)
			vAssume(!arrived[i]) // each path arrives once
			ok := vBool("valid")
			verdicts[uint64(i)] = ok
			arrived[i], valid[i] = true, ok
			p := &ingest.GenericFeature{ID: vhC37PathID(i)}
			count(v.ValidatePath(p, nil))
		}
	}
	vReach("validated")
	for j := range areaPaths {
		all := areaArrived[j]
		for _, p := range areaPaths[j] {
			all = all && arrived[p] && valid[p]
		}
		if all {
			vAssert(emitted[j] == 1, "an area whose paths have all arrived and are valid is emitted exactly once")
		} else {
			vAssert(emitted[j] == 0, "an area is not emitted while a path is missing or invalid")
		}
	}
	for i := range arrived {
		if arrived[i] && valid[i] {
			vAssert(pathEmitted[i] == 1, "a valid path is emitted once")
		} else {
			vAssert(pathEmitted[i] == 0, "an invalid path is not emitted")
		}
	}
}
