//go:build verif

package compact

import (
	"diagonal.works/b6"
	"diagonal.works/b6/encoding"
	"diagonal.works/b6/ingest"
	"github.com/golang/geo/s2"
)

// C17 / C01: feature blocks written with the real builders (layout from
// addFeatureBlockBuilder, records from FromFeature + Marshal, hash map from
// Uint64MapBuilder) and read through FeaturesByID.
//
// A world merged from several index files has several feature blocks per
// type, possibly for the same namespace; lookups must find a feature in
// whichever block holds it (C17). Every relation that was written reads back
// with its tags and members (C01, relation data path).

const vhNSA = b6.Namespace("diagonal.works/a")
const vhNSB = b6.Namespace("diagonal.works/b")

func vhNamespaceTable() *NamespaceTable {
	var nt NamespaceTable
	nt.FillFromNamespaces([]b6.Namespace{b6.NamespaceOSMNode, b6.NamespaceOSMWay, b6.NamespaceOSMRelation, vhNSA, vhNSB})
	return &nt
}

func vhStringTable(strs ...string) (*encoding.StringTableBuilder, *encoding.StringTable) {
	sb := encoding.NewStringTableBuilder()
	for _, s := range strs {
		sb.Add(s)
	}
	out := encoding.NewBufferWithData(nil)
	end, err := sb.Write(out, 0)
	vAssert(err == nil, "StringTableBuilder.Write")
	data := out.Bytes()
	for len(data) < int(end) {
		data = append(data, 0)
	}
	return sb, encoding.NewStringTable(data)
}

// vhRelationBlock writes the relations into a feature block the way the
// builder does (emitPathsAreasAndRelations / FeatureBlockBuilder), minus the
// block header whose encoding goes through reflection (binary.Write).
func vhRelationBlock(nt *NamespaceTable, ns b6.Namespace, sb *encoding.StringTableBuilder, st *encoding.StringTable, rels []*ingest.RelationFeature) *featureBlock {
	builders := make(FeatureBlockBuilders)
	addFeatureBlockBuilder(builders, b6.FeatureTypeRelation, ns, uint64(len(rels)), nt)
	b := builders[NamespacedFeatureType{Namespace: nt.Encode(ns), FeatureType: b6.FeatureTypeRelation}]
	osm := OSMNamespaces(nt)
	records := make([][]byte, len(rels))
	for i, rel := range rels {
		var r Relation
		r.FromFeature(rel, sb, nt)
		buf := make([]byte, 256)
		n := r.Marshal(b6.FeatureTypePath, &osm, buf)
		records[i] = buf[:n]
		b.Map.Reserve(rel.RelationID.Value, encoding.NoTag, n)
	}
	b.Map.FinishReservation()
	out := encoding.NewBufferWithData(nil)
	end, err := b.Map.WriteHeader(out, 0)
	vAssert(err == nil, "WriteHeader")
	for i, rel := range rels {
		vAssert(b.Map.WriteItem(rel.RelationID.Value, encoding.NoTag, records[i], out) == nil, "WriteItem")
	}
	data := out.Bytes()
	for len(data) < int(end) {
		data = append(data, 0)
	}
	return &featureBlock{FeatureBlock: FeatureBlock{FeatureBlockHeader: b.Header, Map: encoding.NewUint64Map(data)}, Strings: st, NamespaceTable: nt}
}

func vhNewRelation(ns b6.Namespace, value uint64, tagValue string, members []b6.FeatureID) *ingest.RelationFeature {
	r := ingest.NewRelationFeature(len(members))
	r.RelationID = b6.MakeRelationID(ns, value)
	for i, m := range members {
		r.Members[i] = b6.RelationMember{ID: m, Role: "role"}
	}
	r.AddTag(b6.Tag{Key: "#route", Value: b6.NewStringExpression(tagValue)})
	return r
}

//vh:steps=8000000 split=5 wall.thorough=3000
func VH_C17_LookupsAcrossBlocks() {
	nt := vhNamespaceTable()
	sb, st := vhStringTable("#route", "bus", "tram", "role")
	// three blocks as three index files would contribute them: two for
	// namespace a, one for namespace b; 1..2 relations in the first, 0..1
	// (quick) / 0..2 in the others, symbolic values
	nss := []b6.Namespace{vhNSA, vhNSA, vhNSB}
	var blocks []*featureBlock
	type written struct {
		ns    b6.Namespace
		value uint64
		tag   string
		block int
	}
	var all []written
	for bi, ns := range nss {
		n := vChoice("n", 2+vTier())
		if bi == 0 {
			n = 1 + vChoice("n0", 2) // the first block is not empty
		}
		var rels []*ingest.RelationFeature
		for i := 0; i < n; i++ {
			v := vU64("value")
			if vTier() == 0 {
				low := v & 3
				vAssume(v == low || v == 1<<63|low)
			}
			for _, w := range all {
				if w.ns == ns {
					vAssume(w.value != v) // a feature lives in one file
				}
			}
			tag := "bus"
			if bi == 1 {
				tag = "tram"
			}
			rels = append(rels, vhNewRelation(ns, v, tag, nil))
			all = append(all, written{ns, v, tag, bi})
		}
		blocks = append(blocks, vhRelationBlock(nt, ns, sb, st, rels))
	}
	f := &FeaturesByID{base: emptyFeaturesByID{}}
	f.features[b6.FeatureTypeRelation] = blocks
	vReach("merged")
	for _, w := range all {
		id := b6.FeatureID{Type: b6.FeatureTypeRelation, Namespace: w.ns, Value: w.value}
		found := f.FindFeatureByID(id)
		vAssert(found != nil, "a feature is found whichever file holds it")
		if found != nil {
			vAssert(found.FeatureID() == id, "with its own id")
			vAssert(found.Get("#route").Value.String() == w.tag, "and its own tags")
		}
		vAssert(f.HasFeatureWithID(id), "HasFeatureWithID agrees with FindFeatureByID for a feature of a later file")
	}
	probe := b6.FeatureID{Type: b6.FeatureTypeRelation, Namespace: nss[vChoice("probens", 3)], Value: vU64("probe")}
	in := false
	for _, w := range all {
		in = vOr(in, vAnd(w.ns == probe.Namespace, w.value == probe.Value))
	}
	vAssert((f.FindFeatureByID(probe) != nil) == in, "a feature is found exactly when some file holds it")
	vAssert(f.HasFeatureWithID(probe) == in, "HasFeatureWithID says so exactly when some file holds it")
}

// vhC01ID is the id of the feature written: any 64-bit value (thorough), or 6
// free low bits with bit 63 clear or set (quick; 1 and 10 varint bytes).
func vhC01ID() uint64 {
	id := vU64("id")
	if vTier() == 0 {
		low := id & 63
		vAssume(id == low || id == 1<<63|low)
	}
	return id
}

// C01 (relation data path): FromFeature -> Marshal -> hash map -> FeaturesByID
// -> marshalledRelation reads back tags, members (type, namespace, value) and
// roles, for members in the block's primary namespace and in others.
//
//vh:steps=8000000 split=4
func VH_C01_RelationDataPath() {
	nt := vhNamespaceTable()
	sb, st := vhStringTable("#route", "bus", "role")
	n := vChoice("members", 3)
	memberNS := []b6.Namespace{b6.NamespaceOSMWay, vhNSA, b6.NamespaceOSMNode}
	members := make([]b6.FeatureID, n)
	for i := range members {
		v := vU64("member")
		if vTier() == 0 {
			low := v & 63
			vAssume(v == low || v == 1<<62|low || v == 1<<63|low)
		}
		members[i] = b6.FeatureID{Type: b6.FeatureType(vU8("mtype") & 3), Namespace: memberNS[vChoice("mns", 2+vTier())], Value: v}
	}
	id := vhC01ID()
	rel := vhNewRelation(vhNSA, id, "bus", members)
	// the first member's role is any string of the table (so also the one
	// with index 0), the others' "role"
	roles := []string{"role", "#route", "bus"}
	role0 := "role"
	if n > 0 {
		role0 = roles[vChoice("role", len(roles))]
		rel.Members[0].Role = role0
	}
	fb := vhRelationBlock(nt, vhNSA, sb, st, []*ingest.RelationFeature{rel})
	f := &FeaturesByID{base: emptyFeaturesByID{}}
	f.features[b6.FeatureTypeRelation] = []*featureBlock{fb}
	got := f.FindFeatureByID(rel.FeatureID())
	vReach("read")
	vAssert(got != nil, "the relation is found by its id")
	if got == nil {
		return
	}
	r := got.(b6.RelationFeature)
	vAssert(r.FeatureID() == rel.FeatureID(), "id")
	tags := r.AllTags()
	vAssert(len(tags) == 1 && tags[0].Key == "#route" && tags[0].Value.String() == "bus", "tags survive (key, value, value kind)")
	vAssert(r.Len() == n, "member count")
	for i := 0; i < r.Len() && i < n; i++ {
		m := r.Member(i)
		vAssert(m.ID.Type == members[i].Type && m.ID.Namespace == members[i].Namespace, "member type and namespace survive")
		vAssert(m.ID.Value == members[i].Value, "member id survives")
		if i == 0 {
			vAssert(m.Role == role0, "member role survives")
		} else {
			vAssert(m.Role == "role", "member role survives")
		}
	}
	// enumeration of the block visits the relation once with its true id
	it := fb.Map.Begin()
	seen := 0
	for it.Next() {
		seen++
		vAssert(it.ID() == id, "enumeration yields the true id")
		vAssert(seen <= 1, "exactly once")
	}
	vAssert(seen == 1, "every feature is enumerated")
}

// C01 (path data path): a path whose geometry is references, lat/lngs or both
// (each element by decision; referenced point ids symbolic, in the OSM node
// namespace or another one; lat/lngs concrete E7-exact values) goes through
// Tags.FromFeature / toCompactValue -> Path.Marshal -> hash map ->
// FeaturesByID -> wrappedMarshalledPhysicalFeature and must read back with the
// same length, the same reference at every reference position, the same
// location at every lat/lng position, and its string tag.
//
//vh:steps=8000000 split=4
func VH_C01_PathDataPath() {
	nt := vhNamespaceTable()
	sb, st := vhStringTable("#highway", "path", b6.PathTag)
	n := 2 + vChoice("points", 2+vTier())
	lls := []s2LatLngE7{{515000000, -1000000}, {515100000, -900000}, {515200000, -800000}, {515300000, -700000}}
	elements := make([]b6.AnyExpression, n)
	isRef := make([]bool, n)
	refs := make([]b6.FeatureID, n)
	for i := 0; i < n; i++ {
		isRef[i] = vBool("isref")
		if isRef[i] {
			ns := b6.NamespaceOSMNode
			if vBool("otherns") {
				ns = vhNSA
			}
			v := vU64("ref")
			if vTier() == 0 {
				low := v & 63
				vAssume(v == low || v == 1<<63|low)
			}
			refs[i] = b6.FeatureID{Type: b6.FeatureTypePoint, Namespace: ns, Value: v}
			vAssume(refs[i].IsValid())
			elements[i] = b6.FeatureIDExpression(refs[i])
		} else {
			elements[i] = b6.PointExpression(lls[i].toS2())
		}
	}
	id := vhC01ID()
	path := &ingest.GenericFeature{ID: b6.FeatureID{Type: b6.FeatureTypePath, Namespace: vhNSA, Value: id}}
	path.AddTag(b6.Tag{Key: "#highway", Value: b6.NewStringExpression("path")})
	path.AddTag(b6.Tag{Key: b6.PathTag, Value: b6.NewExpressions(elements)})

	builders := make(FeatureBlockBuilders)
	addFeatureBlockBuilder(builders, b6.FeatureTypePath, vhNSA, 1, nt)
	b := builders[NamespacedFeatureType{Namespace: nt.Encode(vhNSA), FeatureType: b6.FeatureTypePath}]
	osm := OSMNamespaces(nt)
	var p Path
	p.FromFeature(path, sb, nt)
	buf := make([]byte, 512)
	w := p.Marshal(&osm, buf)
	b.Map.Reserve(id, encoding.NoTag, w)
	b.Map.FinishReservation()
	out := encoding.NewBufferWithData(nil)
	end, err := b.Map.WriteHeader(out, 0)
	vAssert(err == nil, "WriteHeader")
	vAssert(b.Map.WriteItem(id, encoding.NoTag, buf[:w], out) == nil, "WriteItem")
	data := out.Bytes()
	for len(data) < int(end) {
		data = append(data, 0)
	}
	fb := &featureBlock{FeatureBlock: FeatureBlock{FeatureBlockHeader: b.Header, Map: encoding.NewUint64Map(data)}, Strings: st, NamespaceTable: nt}
	f := &FeaturesByID{base: emptyFeaturesByID{}}
	f.features[b6.FeatureTypePath] = []*featureBlock{fb}
	got := f.findWithoutCache(path.FeatureID())
	vReach("read")
	vAssert(got != nil, "the path is found by its id")
	if got == nil {
		return
	}
	pf := got.(b6.PhysicalFeature)
	vAssert(pf.FeatureID() == path.FeatureID(), "id")
	vAssert(pf.Get("#highway").Value.String() == "path", "string tag survives")
	vAssert(pf.GeometryLen() == n, "the path has as many points as were written")
	for i := 0; i < n && i < pf.GeometryLen(); i++ {
		src := pf.Reference(i).Source()
		if isRef[i] {
			vAssert(src == refs[i], "a reference reads back as the same point id at the same position")
		} else {
			vAssert(!src.IsValid(), "a lat/lng position holds no reference")
			ll := s2LatLngE7FromPoint(pf.PointAt(i))
			vAssert(ll == lls[i], "a lat/lng reads back at E7 precision at the same position")
		}
	}
	// the tag view of the same feature: the path tag lists the same elements
	all := pf.AllTags()
	vAssert(len(all) == 2, "both tags are listed")
	for _, t := range all {
		if t.Key == b6.PathTag {
			es, ok := t.Value.AnyExpression.(b6.Expressions)
			vAssert(ok, "the path tag is a list")
			vAssert(len(es) == n, "the path tag lists one element per point")
			for i := 0; i < n && i < len(es); i++ {
				if isRef[i] {
					e, ok := es[i].(b6.FeatureIDExpression)
					vAssert(ok && b6.FeatureID(e) == refs[i], "element kinds and references survive in the tag view")
				} else {
					_, ok := es[i].(b6.PointExpression)
					vAssert(ok, "element kinds survive in the tag view")
				}
			}
		}
	}
}

// vhPointEntry is one entry of a point block: a point with its tags (as
// combinePoints emits it, PointTagFull) or only the references to a point
// that lives in another file (PointTagReferencesOnly; what an overlay index
// holds for a base point used by one of its paths).
type vhPointEntry struct {
	value    uint64
	refsOnly bool
}

func vhPointBlock(nt *NamespaceTable, ns b6.Namespace, sb *encoding.StringTableBuilder, st *encoding.StringTable, entries []vhPointEntry) *featureBlock {
	builders := make(FeatureBlockBuilders)
	addFeatureBlockBuilder(builders, b6.FeatureTypePoint, ns, uint64(len(entries)), nt)
	b := builders[NamespacedFeatureType{Namespace: nt.Encode(ns), FeatureType: b6.FeatureTypePoint}]
	osm := OSMNamespaces(nt)
	records := make([][]byte, len(entries))
	tags := make([]encoding.Tag, len(entries))
	for i, e := range entries {
		buf := make([]byte, 128)
		n := 0
		if e.refsOnly {
			refs := PointReferences{Paths: References{Reference{TypeAndNamespace: CombineTypeAndNamespace(b6.FeatureTypePath, nt.Encode(vhNSA)), Value: 7}}}
			n = refs.Marshal(&osm, buf)
			tags[i] = PointTagReferencesOnly
		} else {
			point := &ingest.GenericFeature{ID: b6.FeatureID{Type: b6.FeatureTypePoint, Namespace: ns, Value: e.value}}
			point.AddTag(b6.Tag{Key: "#amenity", Value: b6.NewStringExpression("cafe")})
			point.AddTag(b6.Tag{Key: b6.PointTag, Value: b6.NewPointExpressionFromLatLng(s2LatLngE7{515000000, -1000000}.toS2())})
			var p FullPoint
			p.Tags.FromFeature(point, sb, nt)
			n = p.Marshal(&osm, buf)
			tags[i] = PointTagFull
		}
		records[i] = buf[:n]
		b.Map.Reserve(e.value, tags[i], n)
	}
	b.Map.FinishReservation()
	out := encoding.NewBufferWithData(nil)
	end, err := b.Map.WriteHeader(out, 0)
	vAssert(err == nil, "WriteHeader")
	for i, e := range entries {
		vAssert(b.Map.WriteItem(e.value, tags[i], records[i], out) == nil, "WriteItem")
	}
	data := out.Bytes()
	for len(data) < int(end) {
		data = append(data, 0)
	}
	return &featureBlock{FeatureBlock: FeatureBlock{FeatureBlockHeader: b.Header, Map: encoding.NewUint64Map(data)}, Strings: st, NamespaceTable: nt}
}

// vhC17PointValue: 1 (quick) / 2 free low bits, bit 63 clear or set.
func vhC17PointValue(name string) uint64 {
	v := vU64(name)
	low := v & uint64(1+2*vTier())
	vAssume(v == low || v == 1<<63|low)
	return v
}

// Point lookups over the blocks of a base index and an overlay index in either
// merge order: two blocks of one namespace hold 1..2 and 1 (thorough 1..2) entries, each a
// point or only the references to a point; a point is found by its ID exactly
// when some block holds it as a point, whichever other blocks mention it and
// in whichever order the blocks were merged.
//
//vh:steps=8000000 split=4
func VH_C17_PointsAcrossBlocks() {
	nt := vhNamespaceTable()
	sb, st := vhStringTable("#amenity", "cafe", b6.PointTag)
	var blocks []*featureBlock
	var all []vhPointEntry
	for bi := 0; bi < 2; bi++ {
		n := 1
		if bi == 0 || vTier() == 1 {
			n = 1 + vChoice("n", 2)
		}
		var entries []vhPointEntry
		for i := 0; i < n; i++ {
			e := vhPointEntry{value: vhC17PointValue("value"), refsOnly: vBool("refsonly")}
			for _, o := range entries {
				vAssume(o.value != e.value) // one entry per point in a file
			}
			for _, o := range all {
				vAssume(o.value != e.value || o.refsOnly || e.refsOnly) // a point lives in one file
			}
			entries = append(entries, e)
		}
		all = append(all, entries...)
		blocks = append(blocks, vhPointBlock(nt, vhNSA, sb, st, entries))
	}
	f := &FeaturesByID{base: emptyFeaturesByID{}}
	f.features[b6.FeatureTypePoint] = blocks
	vReach("merged")
	probe := b6.FeatureID{Type: b6.FeatureTypePoint, Namespace: vhNSA, Value: vhC17PointValue("probe")}
	stored := false
	for _, e := range all {
		stored = vOr(stored, vAnd(!e.refsOnly, e.value == probe.Value))
	}
	found := f.FindFeatureByID(probe)
	vAssert((found != nil) == stored, "a point is found exactly when some file holds it as a point")
	if found != nil {
		vAssert(found.FeatureID() == probe, "with its own id")
		vAssert(found.Get("#amenity").Value.String() == "cafe", "and its own tags")
	}
	if stored {
		vAssert(f.HasFeatureWithID(probe), "HasFeatureWithID agrees with FindFeatureByID for a point of a later file")
	}
}

// C01 (area data path): an area whose polygons are given by path IDs (1..2
// polygons of 1..2 paths each - quick: the second polygon has one path and
// only a polygon's first path may be in the other namespace -, symbolic 64-bit path ids in the OSM-way
// namespace or another one), optionally preceded by an explicitly given
// polygon (so that the mixed encoding is chosen; the explicit polygon is empty
// and drops out), goes through Area.FromFeature -> Area.Marshal -> hash map ->
// FeaturesByID -> marshalledArea and reads back with its id, its tag, the same
// number of polygons and the same path ids per polygon (read from the
// unmarshalled geometry, as marshalledArea.Feature does before it looks the
// paths up).
//
//vh:steps=8000000 split=4
func VH_C01_AreaDataPath() {
	nt := vhNamespaceTable()
	sb, st := vhStringTable("#landuse", "park")
	mixed := vBool("mixed")
	npolys := 1 + vChoice("polygons", 2)
	first := 0
	if mixed {
		first = 1
	}
	area := ingest.NewAreaFeature(first + npolys)
	id := vhC01ID()
	area.AreaID = b6.MakeAreaID(vhNSA, id)
	area.AddTag(b6.Tag{Key: "#landuse", Value: b6.NewStringExpression("park")})
	if mixed {
		area.SetPolygon(0, &s2.Polygon{})
	}
	want := make([][]b6.FeatureID, npolys)
	for i := 0; i < npolys; i++ {
		npaths := 1
		if i == 0 || vTier() == 1 {
			npaths = 1 + vChoice("paths", 2)
		}
		for j := 0; j < npaths; j++ {
			ns := b6.NamespaceOSMWay
			if (j == 0 || vTier() == 1) && vBool("otherns") {
				ns = vhNSA
			}
			v := vU64("path")
			if vTier() == 0 {
				low := v & 63
				vAssume(v == low || v == 1<<63|low)
			}
			want[i] = append(want[i], b6.FeatureID{Type: b6.FeatureTypePath, Namespace: ns, Value: v})
		}
		area.SetPathIDs(first+i, want[i])
	}

	builders := make(FeatureBlockBuilders)
	addFeatureBlockBuilder(builders, b6.FeatureTypeArea, vhNSA, 1, nt)
	b := builders[NamespacedFeatureType{Namespace: nt.Encode(vhNSA), FeatureType: b6.FeatureTypeArea}]
	osm := OSMNamespaces(nt)
	var a Area
	scratch := make([]byte, 256)
	a.FromFeature(area, sb, nt, scratch)
	vReach("encoded")
	vAssert(a.Polygons != nil, "the area's geometry is encoded")
	if a.Polygons == nil {
		return
	}
	buf := make([]byte, 512)
	w := a.Marshal(&osm, buf)
	b.Map.Reserve(id, encoding.NoTag, w)
	b.Map.FinishReservation()
	out := encoding.NewBufferWithData(nil)
	end, err := b.Map.WriteHeader(out, 0)
	vAssert(err == nil, "WriteHeader")
	vAssert(b.Map.WriteItem(id, encoding.NoTag, buf[:w], out) == nil, "WriteItem")
	data := out.Bytes()
	for len(data) < int(end) {
		data = append(data, 0)
	}
	fb := &featureBlock{FeatureBlock: FeatureBlock{FeatureBlockHeader: b.Header, Map: encoding.NewUint64Map(data)}, Strings: st, NamespaceTable: nt}
	f := &FeaturesByID{base: emptyFeaturesByID{}}
	f.features[b6.FeatureTypeArea] = []*featureBlock{fb}
	got := f.findWithoutCache(area.FeatureID())
	vReach("read")
	vAssert(got != nil, "the area is found by its id")
	if got == nil {
		return
	}
	ma := got.(*marshalledArea)
	vAssert(ma.FeatureID() == area.FeatureID(), "id")
	vAssert(ma.Get("#landuse").Value.String() == "park", "string tag survives")
	vAssert(ma.Len() == npolys, "the area has as many polygons as were written")
	ma.fillGeometry()
	for i := 0; i < npolys && i < ma.geometry.Len(); i++ {
		ids, ok := ma.geometry.PathIDs(i)
		vAssert(ok && len(ids) == len(want[i]), "a polygon has as many paths as were written")
		for j := range ids {
			if j < len(want[i]) {
				typ, ns := ids[j].TypeAndNamespace.Split()
				vAssert(vAll(typ == b6.FeatureTypePath, nt.Decode(ns) == want[i][j].Namespace, ids[j].Value == want[i][j].Value), "path ids survive per polygon, in order")
			}
		}
	}
}
