//go:build verif

package compact

import (
	"diagonal.works/b6"
	"diagonal.works/b6/encoding"
)

// vhVal is a 64-bit value drawn from the value classes that select different
// code paths of the codecs (one-byte varints, bit 63 set = explicit namespace
// form and wrapping deltas, bit 62 set = zigzag extremes). VH_C11_ReferencesFull
// leaves the values unconstrained.
func vhVal(name string) uint64 {
	v := vU64(name)
	// bases x 6 free low bits: every pair of values then has a delta whose
	// varint length is one of one or two sizes, which keeps the number of
	// byte-layout paths small. Quick: {0, 2^63}; thorough adds 2^62.
	low := v & 63
	switch vChoice(name+"class", 2+vTier()) {
	case 0:
		vAssume(v == low)
	case 1:
		vAssume(v == 1<<63|low)
	case 2:
		vAssume(v == 1<<62|low)
	}
	return v
}

// vhSize is a length 0..q (quick) / 0..t (thorough).
func vhSize(name string, q, t int) int {
	if vTier() == 0 {
		return vChoice(name, q+1)
	}
	return vChoice(name, t+1)
}

// vhTN is a type-and-namespace that is either the primary, or another one.
func vhTN(name string, primary TypeAndNamespace) TypeAndNamespace {
	if vBool(name + "isprimary") {
		return primary
	}
	tn := TypeAndNamespace(vU16(name))
	vAssume(tn != primary)
	if vTier() == 0 {
		vAssume(tn < 64) // one-byte varint form only
	}
	return tn
}

func vhRefs(name string, n int, primary TypeAndNamespace) References {
	rs := make(References, n)
	for i := range rs {
		rs[i] = Reference{TypeAndNamespace: vhTN(name+"tn", primary), Value: vhVal(name + "v")}
	}
	return rs
}

func vhRefsEqual(a, b References, what string) {
	vAssert(len(a) == len(b), what+": length")
	ns, vs := true, true
	for i := range a {
		ns = vAnd(ns, a[i].TypeAndNamespace == b[i].TypeAndNamespace)
		vs = vAnd(vs, a[i].Value == b[i].Value)
	}
	vAssert(ns, what+": namespace")
	vAssert(vs, what+": value")
}

func vhBytesEqual(a, b []byte, n int, what string) {
	ok := true
	for i := 0; i < n; i++ {
		ok = vAnd(ok, a[i] == b[i])
	}
	vAssert(ok, what)
}

// C11: reference lists with and without the primary namespace.
//
//vh:steps=3000000
func VH_C11_References() {
	primary := TypeAndNamespace(vU16("primary"))
	n := vChoice("n", 3+vTier())
	rs := vhRefs("r", n, primary)
	buf := make([]byte, 24*n+16)
	w := rs.Marshal(primary, buf)
	var out References
	r := out.Unmarshal(primary, buf)
	vReach("references")
	vObsInt("w", w)
	vAssert(r == w, "References: bytes consumed == bytes written")
	vhRefsEqual(out, rs, "References")
	vAssert(MarshalledReferences(buf).Len() == n, "MarshalledReferences.Len")
	// marshalling what was decoded gives the same bytes
	buf2 := make([]byte, len(buf))
	w2 := out.Marshal(primary, buf2)
	vAssert(w2 == w, "References: second marshal has the same length")
	vhBytesEqual(buf, buf2, w, "References: second marshal is stable")
}

// C11: reference lists with unconstrained 64-bit values (every varint length).
//
//vh:tier=thorough steps=3000000
func VH_C11_ReferencesFull() {
	primary := TypeAndNamespace(vU16("primary"))
	n := vChoice("n", 3)
	rs := make(References, n)
	for i := range rs {
		rs[i] = Reference{TypeAndNamespace: vhTN("rtn", primary), Value: vU64("rv")}
	}
	buf := make([]byte, 24*n+16)
	w := rs.Marshal(primary, buf)
	var out References
	r := out.Unmarshal(primary, buf)
	vReach("references-full")
	vAssert(r == w, "References: bytes consumed == bytes written")
	vhRefsEqual(out, rs, "References")
}

// C11: lat/lng lists (E7 int32 pairs, deltas wrap).
//
//vh:steps=3000000
func VH_C11_LatLngs() {
	n := vChoice("n", 3+vTier())
	lls := make(LatLngs, n)
	for i := range lls {
		lls[i] = LatLng{LatE7: vI32("lat"), LngE7: vI32("lng")}
		if vTier() == 0 {
			// keep the varint case split small: latitudes are tiny or near the
			// int32 extremes (so deltas are tiny or wrap), longitudes tiny
			l := lls[i].LatE7
			vAssume((l > -64 && l < 64) || l > 0x7fffffc0 || l < -0x7fffffc0)
			e := lls[i].LngE7
			vAssume(e > -64 && e < 64)
		}
	}
	buf := make([]byte, 20*n+16)
	w := lls.Marshal(TypeAndNamespaceInvalid, buf)
	var out LatLngs
	r := out.Unmarshal(TypeAndNamespaceInvalid, buf)
	vReach("latlngs")
	vAssert(r == w, "LatLngs: bytes consumed == bytes written")
	vAssert(len(out) == n, "LatLngs: length")
	ok := true
	for i := range out {
		ok = vAll(ok, out[i].LatE7 == lls[i].LatE7, out[i].LngE7 == lls[i].LngE7)
	}
	vAssert(ok, "LatLngs: point survives")
}

// C11: mixed reference / lat-lng lists.
//
//vh:steps=3000000
func VH_C11_ReferencesAndLatLngs() {
	primary := TypeAndNamespace(vU16("primary"))
	n := vChoice("n", 3+vTier())
	g := make(ReferencesAndLatLngs, n)
	for i := range g {
		if vBool("isref") {
			g[i].Reference = Reference{TypeAndNamespace: vhTN("tn", primary), Value: vhVal("v")}
			// the all-zero reference is the codec's marker for "this is a lat/lng"
			vAssume(g[i].Reference != ReferenceInvald)
		} else {
			g[i].LatLng = LatLng{LatE7: int32(vI8("lat")), LngE7: vI32("lng")}
			if vTier() == 0 {
				vAssume(g[i].LatLng.LngE7 > -64 && g[i].LatLng.LngE7 < 64)
			}
		}
	}
	buf := make([]byte, 24*n+16)
	w := g.Marshal(primary, buf)
	var out ReferencesAndLatLngs
	r := out.Unmarshal(primary, buf)
	vReach("mixed")
	vAssert(r == w, "ReferencesAndLatLngs: bytes consumed == bytes written")
	vAssert(len(out) == n, "ReferencesAndLatLngs: length")
	okr, okl := true, true
	for i := range out {
		okr = vAnd(okr, out[i].Reference == g[i].Reference)
		okl = vAnd(okl, out[i].LatLng == g[i].LatLng)
	}
	vAssert(okr, "ReferencesAndLatLngs: reference survives")
	vAssert(okl, "ReferencesAndLatLngs: lat/lng survives")
}

// C11: bit sets.
//
func VH_C11_Bits() {
	n := vChoice("n", 10+4*vTier()) // 0..9 (quick) / 0..13 bits: crosses the byte boundary
	b := make(Bits, n)
	for i := range b {
		b[i] = vBool("b")
	}
	buf := make([]byte, 16)
	w := b.Marshal(buf)
	out := Bits{true, true, true} // decoding into a used value must overwrite it
	r := out.Unmarshal(buf)
	vReach("bits")
	vAssert(r == w, "Bits: bytes consumed == bytes written")
	vAssert(len(out) == n, "Bits: length")
	ok := true
	for i := range out {
		ok = vAnd(ok, out[i] == b[i])
	}
	vAssert(ok, "Bits: bit survives")
}

// C11: relation members.
//
//vh:steps=3000000
func VH_C11_Members() {
	primary := TypeAndNamespace(vU16("primary"))
	n := vhSize("n", 2, 2)
	ms := make(Members, n)
	for i := range ms {
		ms[i].Type = b6.FeatureType(vU8("type"))
		vAssume(ms[i].Type < 4)
		ms[i].Role = int(vU32("role"))
		if vTier() == 0 {
			vAssume(ms[i].Role < 64 || ms[i].Role == 1<<31)
		} else {
			vAssume(ms[i].Role < 128 || ms[i].Role > 1<<30)
		}
		ms[i].ID = Reference{TypeAndNamespace: vhTN("tn", primary), Value: vhVal("v")}
	}
	buf := make([]byte, 40*n+16)
	w := ms.Marshal(primary, buf)
	var out Members
	r := out.Unmarshal(primary, buf)
	vReach("members")
	vAssert(r == w, "Members: bytes consumed == bytes written")
	vAssert(len(out) == n, "Members: length")
	vAssert(MarshalledMembers(buf).Len() == n, "MarshalledMembers.Len")
	okt, okr, oki := true, true, true
	for i := range out {
		okt = vAnd(okt, out[i].Type == ms[i].Type)
		okr = vAnd(okr, out[i].Role == ms[i].Role)
		oki = vAnd(oki, out[i].ID == ms[i].ID)
	}
	vAssert(okt, "Members: type survives")
	vAssert(okr, "Members: role survives")
	vAssert(oki, "Members: id survives")
}

// C11: area geometry by path references (polygon boundaries + path list).
//
//vh:steps=3000000
func VH_C11_AreaGeometryReferences() {
	primary := TypeAndNamespace(vU16("primary"))
	np := vhSize("paths", 2, 3)
	paths := vhRefs("p", np, primary)
	// polygon boundaries: a non-decreasing list of offsets into paths
	nb := vhSize("bounds", 1, 2)
	bounds := make([]int, nb)
	for i := range bounds {
		bounds[i] = vChoice("b", np+1)
		if i > 0 {
			vAssume(bounds[i] >= bounds[i-1])
		}
	}
	a := &AreaGeometryReferences{Polygons: bounds, Paths: paths}
	buf := make([]byte, 24*np+64)
	w := a.Marshal(primary, buf)
	vReach("area-refs")
	// the generic entry point used when reading an area
	g, r := UnmarshalAreaGeometry(primary, buf)
	vAssert(r == w, "AreaGeometryReferences via UnmarshalAreaGeometry: bytes consumed == bytes written")
	out, ok := g.(*AreaGeometryReferences)
	vAssert(ok, "UnmarshalAreaGeometry returns the references encoding")
	vAssert(len(out.Polygons) == nb, "AreaGeometryReferences: polygon count")
	okb := true
	for i := range bounds {
		okb = vAnd(okb, out.Polygons[i] == bounds[i])
	}
	vAssert(okb, "AreaGeometryReferences: polygon boundary survives")
	vhRefsEqual(out.Paths, paths, "AreaGeometryReferences paths")
	vAssert(out.Len() == a.Len(), "AreaGeometryReferences: Len")
	// the type's own Unmarshal
	var out2 AreaGeometryReferences
	r2 := out2.Unmarshal(primary, buf)
	vAssert(r2 == w, "AreaGeometryReferences.Unmarshal: bytes consumed == bytes written")
	vhRefsEqual(out2.Paths, paths, "AreaGeometryReferences.Unmarshal paths")
}

func vhPolygonLatLngs(name string) PolygonGeometryLatLngs {
	var p PolygonGeometryLatLngs
	np := vhSize(name+"points", 2, 3)
	for i := 0; i < np; i++ {
		ll := LatLng{LatE7: int32(vI8(name + "lat")), LngE7: int32(vI8(name + "lng"))}
		if vTier() == 0 {
			vAssume(ll.LatE7 >= -32 && ll.LatE7 < 32 && ll.LngE7 >= -32 && ll.LngE7 < 32)
		}
		p.Points = append(p.Points, ll)
	}
	nl := vChoice(name+"loops", 2)
	for i := 0; i < nl; i++ {
		p.Loops = append(p.Loops, vChoice(name+"loop", np+1))
	}
	return p
}

func vhPolygonLatLngsEqual(a, b *PolygonGeometryLatLngs, what string) {
	vAssert(len(a.Loops) == len(b.Loops), what+": loop count")
	ok := true
	for i := range a.Loops {
		ok = vAnd(ok, a.Loops[i] == b.Loops[i])
	}
	vAssert(ok, what+": loop boundary")
	vAssert(len(a.Points) == len(b.Points), what+": point count")
	ok = true
	for i := range a.Points {
		ok = vAnd(ok, a.Points[i] == b.Points[i])
	}
	vAssert(ok, what+": point")
}

// C11: area geometry by lat/lng loops.
//
//vh:steps=3000000
func VH_C11_AreaGeometryLatLngs() {
	n := vhSize("polygons", 2, 2)
	a := &AreaGeometryLatLngs{}
	for i := 0; i < n; i++ {
		a.Polygons = append(a.Polygons, vhPolygonLatLngs("p"))
	}
	buf := make([]byte, 256)
	w := a.Marshal(TypeAndNamespaceInvalid, buf)
	vReach("area-latlngs")
	g, r := UnmarshalAreaGeometry(TypeAndNamespaceInvalid, buf)
	vAssert(r == w, "AreaGeometryLatLngs via UnmarshalAreaGeometry: bytes consumed == bytes written")
	out, ok := g.(*AreaGeometryLatLngs)
	vAssert(ok, "UnmarshalAreaGeometry returns the lat/lng encoding")
	vAssert(len(out.Polygons) == n, "AreaGeometryLatLngs: polygon count")
	for i := range out.Polygons {
		vhPolygonLatLngsEqual(&out.Polygons[i], &a.Polygons[i], "AreaGeometryLatLngs")
	}
	var out2 AreaGeometryLatLngs
	r2 := out2.Unmarshal(TypeAndNamespaceInvalid, buf)
	vAssert(r2 == w, "AreaGeometryLatLngs.Unmarshal: bytes consumed == bytes written")
}

// C11: mixed area geometry.
//
//vh:steps=3000000
func VH_C11_AreaGeometryMixed() {
	primary := TypeAndNamespace(vU16("primary"))
	n := vChoice("polygons", 3)
	a := &AreaGeometryMixed{}
	for i := 0; i < n; i++ {
		var p PolygonGeometryMixed
		if vBool("byref") {
			p.References.Paths = vhRefs("p", 1+vhSize("np", 0, 1), primary)
		} else if vTier() == 1 {
			p.LatLngs = vhPolygonLatLngs("q")
		} else {
			if vBool("haspoint") {
				p.LatLngs.Points = LatLngs{{LatE7: int32(vI8("qlat") & 31), LngE7: int32(vI8("qlng") & 31)}}
			}
			if vBool("hasloop") {
				p.LatLngs.Loops = []int{len(p.LatLngs.Points)}
			}
		}
		a.Polygons = append(a.Polygons, p)
	}
	buf := make([]byte, 256)
	w := a.Marshal(primary, buf)
	vReach("area-mixed")
	g, r := UnmarshalAreaGeometry(primary, buf)
	vAssert(r == w, "AreaGeometryMixed via UnmarshalAreaGeometry: bytes consumed == bytes written")
	out, ok := g.(*AreaGeometryMixed)
	vAssert(ok, "UnmarshalAreaGeometry returns the mixed encoding")
	vAssert(len(out.Polygons) == n, "AreaGeometryMixed: polygon count")
	for i := range out.Polygons {
		vhRefsEqual(out.Polygons[i].References.Paths, a.Polygons[i].References.Paths, "AreaGeometryMixed references")
		if len(a.Polygons[i].References.Paths) == 0 {
			vhPolygonLatLngsEqual(&out.Polygons[i].LatLngs, &a.Polygons[i].LatLngs, "AreaGeometryMixed lat/lngs")
		}
	}
	var out2 AreaGeometryMixed
	r2 := out2.Unmarshal(primary, buf)
	vAssert(r2 == w, "AreaGeometryMixed.Unmarshal: bytes consumed == bytes written")
}

// vhTagsQ is the tag list of a composite record: the full generator in the
// thorough tier, at most one string-valued tag in the quick tier (tag lists
// have their own harness, VH_C11_Tags).
func vhTagsQ(name string, tns TypeAndNamespace) Tags {
	if vTier() == 1 {
		return vhTags(name, vChoice(name+"ntags", 2), tns)
	}
	if !vBool(name + "hastag") {
		return Tags{}
	}
	v := Int(vU8(name + "str"))
	return Tags{{Key: int(vU8(name + "key")), Value: &v}}
}

// vhTags builds a tag list with string (table index), point and path values.
func vhTags(name string, n int, tns TypeAndNamespace) Tags {
	ts := make(Tags, n)
	for i := range ts {
		ts[i].Key = int(vU16(name + "key"))
		switch vChoice(name+"kind", 4) {
		case 0:
			v := Int(vU32(name + "str"))
			if vTier() == 0 {
				vAssume(v < 128 || v > 1<<30)
			}
			ts[i].Value = &v
		case 1:
			ts[i].Value = &LatLng{LatE7: vI32(name + "lat"), LngE7: vI32(name + "lng")}
			if vTier() == 0 {
				l := ts[i].Value.(*LatLng).LatE7
				vAssume((l > -32 && l < 32) || l > 1<<29 || l < -(1<<29))
			}
		case 2:
			rs := vhRefs(name+"ref", 1+vChoice(name+"nref", 2), tns)
			ts[i].Value = &rs
		case 3:
			lls := LatLngs{{LatE7: int32(vI8(name + "llat")), LngE7: int32(vI8(name + "llng"))}}
			ts[i].Value = &lls
		}
	}
	return ts
}

func vhTagsEqual(a, b Tags, what string) {
	vAssert(len(a) == len(b), what+": tag count")
	for i := range a {
		vAssert(a[i].Key == b[i].Key, what+": tag key")
		switch x := b[i].Value.(type) {
		case *Int:
			y, ok := a[i].Value.(*Int)
			vAssert(ok, what+": value kind (string)")
			vAssert(*y == *x, what+": string index")
		case *LatLng:
			y, ok := a[i].Value.(*LatLng)
			vAssert(ok, what+": value kind (point)")
			vAssert(*y == *x, what+": point value")
		case *References:
			y, ok := a[i].Value.(*References)
			vAssert(ok, what+": value kind (references)")
			vhRefsEqual(*y, *x, what+": path references")
		case *LatLngs:
			y, ok := a[i].Value.(*LatLngs)
			vAssert(ok, what+": value kind (lat/lngs)")
			vAssert(len(*y) == len(*x), what+": lat/lng count")
			same := true
			for j := range *x {
				same = vAnd(same, (*y)[j] == (*x)[j])
			}
			vAssert(same, what+": lat/lng")
		}
	}
}

// C11: tags with string, point and path values.
//
//vh:steps=3000000
func VH_C11_Tags() {
	tns := TypeAndNamespace(vU16("tns"))
	n := vhSize("n", 1, 2)
	ts := vhTags("t", n, tns)
	buf := make([]byte, 256)
	w := ts.Marshal(tns, buf)
	out := Tags{{Key: 99}, {Key: 98}, {Key: 97}} // decoding reuses the destination
	r := out.Unmarshal(tns, buf)
	vReach("tags")
	vAssert(r == w, "Tags: bytes consumed == bytes written")
	vhTagsEqual(out, ts, "Tags")
}

func vhNamespaces() *Namespaces {
	var nss Namespaces
	for t := b6.FeatureTypeBegin; t < b6.FeatureTypeEnd; t++ {
		nss[t] = Namespace(vU16("nss"))
		vAssume(nss[t] < 1<<13)
	}
	return &nss
}

// C11: namespace tables of a block header, namespace indices.
func VH_C11_Namespaces() {
	nss := vhNamespaces()
	var buf [16]byte
	w := nss.Marshal(buf[:])
	var out Namespaces
	r := out.Unmarshal(buf[:])
	vReach("namespaces")
	vAssert(w == r && w == NamespacesLength, "Namespaces: length")
	vAssert(out == *nss, "Namespaces survive")
	ni := NamespaceIndex{TypeAndNamespace: TypeAndNamespace(vU16("tn")), Index: int(vU32("index"))}
	var b2 [24]byte
	w2 := ni.Marshal(b2[:])
	var o2 NamespaceIndex
	r2 := o2.Unmarshal(b2[:])
	vAssert(w2 == r2, "NamespaceIndex: bytes consumed == bytes written")
	vAssert(o2 == ni, "NamespaceIndex survives")
}

// C11: point records.
//
//vh:steps=4000000
func VH_C11_Points() {
	nss := vhNamespaces()
	pathPrimary := CombineTypeAndNamespace(b6.FeatureTypePath, nss.ForType(b6.FeatureTypePath))
	relPrimary := CombineTypeAndNamespace(b6.FeatureTypeRelation, nss.ForType(b6.FeatureTypeRelation))
	tags := vhTagsQ("t", TypeAndNamespaceInvalid)
	buf := make([]byte, 256)
	if vBool("common") {
		c := CommonPoint{Tags: tags, Path: Reference{TypeAndNamespace: vhTN("ptn", pathPrimary), Value: vhVal("pv")}}
		w := c.Marshal(nss, buf)
		var out CommonPoint
		r := out.Unmarshal(nss, buf)
		vReach("common-point")
		vAssert(r == w, "CommonPoint: bytes consumed == bytes written")
		vhTagsEqual(out.Tags, tags, "CommonPoint tags")
		vAssert(out.Path == c.Path, "CommonPoint: path survives")
		// CombinePointAndPath produces the same bytes from the marshalled tags
		tb := make([]byte, 128)
		tn := tags.Marshal(TypeAndNamespaceInvalid, tb)
		cb := make([]byte, 256)
		cn := CombinePointAndPath(tb[:tn], nss, c.Path, cb)
		vAssert(cn == w, "CombinePointAndPath: length")
		vhBytesEqual(cb, buf, w, "CombinePointAndPath: bytes")
		return
	}
	p := FullPoint{Tags: tags}
	p.Paths = vhRefs("path", vhSize("npaths", 2, 2), pathPrimary)
	p.Relations = vhRefs("rel", vhSize("nrels", 1, 1), relPrimary)
	// Marshal sorts both lists (order is documented as unimportant)
	wantPaths := append(References{}, p.Paths...)
	wantRels := append(References{}, p.Relations...)
	w := p.Marshal(nss, buf)
	var out FullPoint
	r := out.Unmarshal(nss, buf)
	vReach("full-point")
	vAssert(r == w, "FullPoint: bytes consumed == bytes written")
	vhTagsEqual(out.Tags, tags, "FullPoint tags")
	vhSameMultiset(out.Paths, wantPaths, "FullPoint paths")
	vhSameMultiset(out.Relations, wantRels, "FullPoint relations")
}

func vhSameMultiset(a, b References, what string) {
	vAssert(len(a) == len(b), what+": length")
	for _, x := range b {
		na, nb := 0, 0
		for _, y := range a {
			if y == x {
				na++
			}
		}
		for _, y := range b {
			if y == x {
				nb++
			}
		}
		vAssert(na == nb, what+": same references")
	}
}

// C11: path records.
//
//vh:steps=4000000
func VH_C11_Path() {
	nss := vhNamespaces()
	pointPrimary := CombineTypeAndNamespace(b6.FeatureTypePoint, nss[b6.FeatureTypePoint])
	p := Path{Tags: vhTagsQ("t", pointPrimary)}
	p.Areas = vhRefs("area", vhSize("nareas", 2, 2), CombineTypeAndNamespace(b6.FeatureTypeArea, nss[b6.FeatureTypeArea]))
	p.Relations = vhRefs("rel", vhSize("nrels", 1, 1), CombineTypeAndNamespace(b6.FeatureTypeRelation, nss[b6.FeatureTypeRelation]))
	wantAreas := append(References{}, p.Areas...)
	wantRels := append(References{}, p.Relations...)
	wantTags := append(Tags{}, p.Tags...)
	buf := make([]byte, 256)
	w := p.Marshal(nss, buf)
	var out Path
	r := out.Unmarshal(nss, buf)
	vReach("path")
	vAssert(r == w, "Path: bytes consumed == bytes written")
	vhTagsEqual(out.Tags, wantTags, "Path tags")
	vhSameMultiset(out.Areas, wantAreas, "Path areas")
	vhRefsEqual(out.Relations, wantRels, "Path relations")
}

// C11: area records (tags + geometry + relations the area belongs to).
//
//vh:steps=4000000
func VH_C11_Area() {
	nss := vhNamespaces()
	pathPrimary := CombineTypeAndNamespace(b6.FeatureTypePath, nss.ForType(b6.FeatureTypePath))
	relPrimary := CombineTypeAndNamespace(b6.FeatureTypeRelation, nss.ForType(b6.FeatureTypeRelation))
	a := Area{Tags: vhTagsQ("t", TypeAndNamespaceInvalid)}
	paths := vhRefs("p", 1+vhSize("npaths", 0, 1), pathPrimary)
	a.Polygons = &AreaGeometryReferences{Polygons: []int{}, Paths: paths}
	// relations an area belongs to: written by the builder with the relation's
	// own namespace (see fillAreaRelations), which may or may not be the
	// block's relation namespace
	a.Relations = vhRefs("rel", vhSize("nrels", 2, 2), relPrimary)
	wantRels := append(References{}, a.Relations...)
	buf := make([]byte, 256)
	w := a.Marshal(nss, buf)
	var out Area
	r := out.Unmarshal(nss, buf)
	vReach("area")
	vAssert(r == w, "Area: bytes consumed == bytes written")
	vhTagsEqual(out.Tags, a.Tags, "Area tags")
	g, ok := out.Polygons.(*AreaGeometryReferences)
	vAssert(ok, "Area: geometry kind")
	vhRefsEqual(g.Paths, paths, "Area paths")
	vhRefsEqual(out.Relations, wantRels, "Area relations")
	vAssert(MarshalledArea(buf).Len() == 1, "MarshalledArea.Len")
}

// C11: relation records.
//
//vh:steps=4000000
func VH_C11_Relation() {
	nss := vhNamespaces()
	primaryType := b6.FeatureType(vChoice("primary", 2+2*vTier())) // point, path (quick); + area, relation
	primary := CombineTypeAndNamespace(primaryType, nss.ForType(primaryType))
	relPrimary := CombineTypeAndNamespace(b6.FeatureTypeRelation, nss.ForType(b6.FeatureTypeRelation))
	rel := Relation{Tags: vhTagsQ("t", TypeAndNamespaceInvalid)}
	n := vhSize("nmembers", 1, 2) // members are coded independently of each other; VH_C11_Members has lists
	for i := 0; i < n; i++ {
		rel.Members = append(rel.Members, Member{Type: b6.FeatureType(vU8("mtype") & 3), Role: int(vU8("role") & 7), ID: Reference{TypeAndNamespace: vhTN("mtn", primary), Value: vhVal("mv")}})
	}
	rel.Relations = vhRefs("rel", vhSize("nrels", 1, 1), relPrimary)
	buf := make([]byte, 256)
	w := rel.Marshal(primaryType, nss, buf)
	var out Relation
	r := out.Unmarshal(primaryType, nss, buf)
	vReach("relation")
	vAssert(r == w, "Relation: bytes consumed == bytes written")
	vhTagsEqual(out.Tags, rel.Tags, "Relation tags")
	vAssert(len(out.Members) == n, "Relation: member count")
	okm := true
	for i := range out.Members {
		okm = vAnd(okm, out.Members[i] == rel.Members[i])
	}
	vAssert(okm, "Relation: member survives")
	vhRefsEqual(out.Relations, rel.Relations, "Relation relations")
	vAssert(MarshalledRelation(buf).Len() == n, "MarshalledRelation.Len")
	var ms Members
	MarshalledRelation(buf).UnmarshalMembers(primaryType, nss, &ms)
	vAssert(len(ms) == n, "UnmarshalMembers: count")
	okm = true
	for i := range ms {
		okm = vAnd(okm, ms[i] == rel.Members[i])
	}
	vAssert(okm, "UnmarshalMembers: member survives")
}

// C11: strings, posting-list headers, token maps.
//
//vh:steps=4000000
func VH_C11_StringsAndHeaders() {
	s := vStr("s", vhSize("len", 2, 3))
	buf := make([]byte, 64)
	w := MarshalString(s, buf)
	out, r := UnmarshalString(buf)
	vReach("strings")
	vAssert(r == w && out == s, "MarshalString round-trips")
	vAssert(MarshalledStringEquals(buf, s), "MarshalledStringEquals on the same string")
	other := vStr("o", vhSize("olen", 2, 3))
	if other != s {
		vAssert(!MarshalledStringEquals(buf, other), "MarshalledStringEquals on a different string")
	}
	h := PostingListHeader{Token: s, Features: int(vU32("features"))}
	nn := vhSize("nns", 1, 2)
	for i := 0; i < nn; i++ {
		h.Namespaces = append(h.Namespaces, NamespaceIndex{TypeAndNamespace: TypeAndNamespace(vU16("tn")), Index: int(vU16("idx"))})
	}
	hb := make([]byte, 128)
	hw := h.Marshal(hb)
	var ho PostingListHeader
	hr := ho.Unmarshal(hb)
	vAssert(hr == hw, "PostingListHeader: bytes consumed == bytes written")
	vAssert(ho.Token == s && ho.Features == h.Features, "PostingListHeader: token and feature count survive")
	vAssert(len(ho.Namespaces) == nn, "PostingListHeader: namespace count")
	okn := true
	for i := range ho.Namespaces {
		okn = vAnd(okn, ho.Namespaces[i] == h.Namespaces[i])
	}
	vAssert(okn, "PostingListHeader: namespace index survives")
	vAssert(PostingListHeaderToken(hb) == s, "PostingListHeaderToken")
	vAssert(PostingListHeaderTokenEquals(hb, s), "PostingListHeaderTokenEquals")
}

// C11: token maps: every added (token, index) pair is among the candidates
// returned for that token.
//
//vh:steps=6000000
func VH_C11_TokenMap() {
	n := 1 + vhSize("n", 1, 2)
	toks := make([]string, n)
	idx := make([]int, n)
	e := NewTokenMapEncoder()
	for i := range toks {
		toks[i] = vStr("t", 1+vChoice("len", 2))
		idx[i] = int(vU16("idx"))
		if vTier() == 0 {
			vAssume(idx[i] < 128 || idx[i] > 1<<14)
		}
		e.Add(toks[i], idx[i])
	}
	out := encoding.NewBufferWithData(nil)
	end, err := e.Write(out, 0)
	vAssert(err == nil, "TokenMapEncoder.Write")
	data := out.Bytes()
	for len(data) < int(end) {
		data = append(data, 0)
	}
	vAssert(e.Length() == int(end), "TokenMapEncoder.Length")
	var m TokenMap
	vAssert(m.Unmarshal(data) == len(data), "TokenMap.Unmarshal length")
	vReach("tokenmap")
	for i := range toks {
		it := m.FindPossibleIndices(toks[i])
		found := false
		for {
			v, ok := it.Next()
			if !ok {
				break
			}
			if v == idx[i] {
				found = true
			}
		}
		vAssert(found, "TokenMap: the index of an added token is among its candidates")
	}
}
