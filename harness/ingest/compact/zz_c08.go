//go:build verif

package compact

import (
	"diagonal.works/b6"
)

// C08: posting lists decode to exactly the IDs encoded, and support Advance to
// any feature ID.

// vhC08Groups are the (type, namespace) groups a list may contain, in
// increasing order (the same order under b6.FeatureID.Less and under the
// compact TypeAndNamespace value, given the sorted namespace table).
var vhC08Groups = []struct {
	t  b6.FeatureType
	ns b6.Namespace
}{
	{b6.FeatureTypePoint, "a"},
	{b6.FeatureTypePoint, "b"},
	{b6.FeatureTypePath, "a"},
}

// vhC08Targets are the (type, namespace) pairs an Advance target may have:
// the three above plus pairs that are absent from every list (before, between
// and after them).
var vhC08Targets = []struct {
	t  b6.FeatureType
	ns b6.Namespace
}{
	{b6.FeatureTypePoint, "a"},
	{b6.FeatureTypePoint, "b"},
	{b6.FeatureTypePath, "a"},
	{b6.FeatureTypePoint, "c"},          // absent, between point/b and path/a
	{b6.FeatureTypeArea, "a"},           // absent, after everything
	{b6.FeatureTypePoint, ""},           // absent, before everything
	{b6.FeatureTypePath, "b"},           // absent, after everything
}

func vhC08Table() *NamespaceTable {
	var nt NamespaceTable
	nt.FillFromNamespaces([]b6.Namespace{"b", "a", "c"})
	return &nt
}

// vhC08Value is the i-th value of a group, given the previous one: class 0 is
// a small step (1 varint byte), class 1 puts the value at (i+1)*2^56 plus 6
// free low bits (a step of 8 or 9 varint bytes; values are written as bit
// fields rather than sums so that comparisons stay cheap for the solver),
// class 2 (first of a group only) sets bit 63 (10 bytes).
func vhC08Value(i int, prev uint64, class int) uint64 {
	low := vU64("d") & 63
	switch class {
	case 0:
		if i == 0 {
			return low
		}
		return prev + 1 + low
	case 1:
		// keeps bit 63 of the previous value, so that the list stays increasing
		// after a first value of class 2
		return prev&(1<<63) | uint64(i+1)<<56 | low
	default:
		return 1<<63 | low
	}
}

type vhC08List struct {
	ids []b6.FeatureID
}

func (l *vhC08List) encode(nt *NamespaceTable) []byte {
	var ids FeatureIDs
	for _, id := range l.ids {
		ids.Append(nt.EncodeID(id))
	}
	var pl PostingList
	pl.Fill("tok", ids.Begin())
	vAssert(pl.Header.Features == len(l.ids), "PostingList.Fill counts the features")
	buf := make([]byte, PostingListHeaderMaxLength+len(pl.IDs)+8)
	n := pl.Marshal(buf)
	return buf[:n]
}

// vhC08Less is the order of the statement (type, namespace, value), written
// out here rather than calling FeatureID.Less.
func vhC08Less(a, b b6.FeatureID) bool {
	if a.Type != b.Type {
		return a.Type < b.Type
	}
	if a.Namespace != b.Namespace {
		return a.Namespace < b.Namespace
	}
	return a.Value < b.Value
}

// vhC08Check drains a fresh iterator and compares with the list; then, from
// the position after j calls of Next, advances to a symbolic target and checks
// where the iterator lands and that iteration continues from there.
func vhC08Check(l *vhC08List, nt *NamespaceTable, buf []byte, maxJ int, ntargets int, advance bool) {
	if advance {
		vhC08Advance(l, nt, buf, maxJ, ntargets)
		return
	}
	it := NewIterator(buf, nt)
	for i := range l.ids {
		vAssert(it.Next(), "Next yields every encoded ID")
		got := it.FeatureID()
		vAssert(vAll(got.Type == l.ids[i].Type, got.Namespace == l.ids[i].Namespace, got.Value == l.ids[i].Value), "Next yields the IDs in order")
	}
	vAssert(!it.Next(), "Next reports the end of the list")
	vReach("drained")
}

// vhC08Advance: from the position after j calls of Next, advance to a symbolic
// target; check where the iterator lands and that iteration continues there.
func vhC08Advance(l *vhC08List, nt *NamespaceTable, buf []byte, maxJ int, ntargets int) {
	j := 0
	if len(l.ids) > 0 {
		k := maxJ
		if len(l.ids) < k {
			k = len(l.ids)
		}
		j = vChoice("j", k+1)
	}
	it := NewIterator(buf, nt)
	for i := 0; i < j; i++ {
		it.Next()
	}
	tg := vhC08Targets[vChoice("ttn", ntargets)]
	target := b6.FeatureID{Type: tg.t, Namespace: tg.ns, Value: vU64("tv")}
	// model: current index (Advance on a fresh iterator reads the first element)
	cur := j - 1
	if cur < 0 {
		cur = 0
	}
	want := -1
	for i := cur; i < len(l.ids); i++ {
		if !vhC08Less(l.ids[i], target) {
			want = i
			break
		}
	}
	ok := it.Advance(target)
	vReach("advanced")
	if want < 0 {
		vAssert(!ok, "Advance reports false when no remaining ID is >= the target")
		return
	}
	vAssert(ok, "Advance finds a remaining ID >= the target")
	got := it.FeatureID()
	vAssert(vAll(got.Type == l.ids[want].Type, got.Namespace == l.ids[want].Namespace, got.Value == l.ids[want].Value), "Advance lands on the first remaining ID >= the target")
	// iteration continues with the element after it
	if want+1 < len(l.ids) {
		vAssert(it.Next(), "Next after Advance continues the list")
		got = it.FeatureID()
		vAssert(vAll(got.Type == l.ids[want+1].Type, got.Namespace == l.ids[want+1].Namespace, got.Value == l.ids[want+1].Value), "Next after Advance yields the following ID")
	} else {
		vAssert(!it.Next(), "Next after Advance to the last ID reports the end")
	}
}

// Small lists, every grouping: 0..1 (quick) / 0..2 IDs in each of three
// (type, namespace) groups, steps of 1, 9 or (first of a group, thorough) 10
// varint bytes.
//
//vh:steps=4000000 wall.thorough=1500
func VH_C08_SmallLists() { vhC08SmallLists(false) }

// The same lists, Advance from the start or after 1 (quick) / up to 2 calls
// of Next to a target of any (type, namespace) incl. absent ones and any value.
//
//vh:steps=4000000 split=6 wall.thorough=1500
func VH_C08_SmallListsAdvance() { vhC08SmallLists(true) }

func vhC08SmallLists(advance bool) {
	nt := vhC08Table()
	l := &vhC08List{}
	for g, grp := range vhC08Groups {
		n := vChoice("n", 2+vTier())
		v := uint64(0)
		for i := 0; i < n; i++ {
			class := vChoice("class", 2)
			if i == 0 && vTier() == 1 && vBool("huge") {
				class = 2
			}
			v = vhC08Value(i, v, class)
			l.ids = append(l.ids, b6.FeatureID{Type: grp.t, Namespace: grp.ns, Value: v})
		}
		_ = g
	}
	buf := l.encode(nt)
	vhC08Check(l, nt, buf, 1+vTier(), 4+3*vTier(), advance)
}

// Block structure: a first group of 8 (quick) / 7..9 IDs whose first k steps
// take 9 varint bytes and the rest 1 byte, so that the 64-byte block
// overflows, is padded, or is filled exactly (7*9+1), followed by 0..1 / 0..2
// IDs of a second group (namespace switch at a block end).
//
//vh:steps=6000000 wall.thorough=1500
func VH_C08_Blocks() { vhC08Blocks(false) }

// The same lists, Advance (binary search over blocks, scan inside a block).
//
//vh:steps=6000000 split=4 wall.thorough=1500
func VH_C08_BlocksAdvance() { vhC08Blocks(true) }

func vhC08Blocks(advance bool) {
	nt := vhC08Table()
	l := &vhC08List{}
	n0 := 8
	if vTier() == 1 {
		n0 = 7 + vChoice("n0", 3)
	}
	k := 6 + vChoice("k", 3)
	if vTier() == 1 {
		k = vChoice("kk", n0+1)
	}
	v := uint64(0)
	for i := 0; i < n0; i++ {
		class := 0
		if i < k {
			class = 1
		}
		v = vhC08Value(i, v, class)
		l.ids = append(l.ids, b6.FeatureID{Type: vhC08Groups[0].t, Namespace: vhC08Groups[0].ns, Value: v})
	}
	n1 := vChoice("n1", 2+vTier())
	v = 0
	for i := 0; i < n1; i++ {
		v = vhC08Value(i, v, 0)
		l.ids = append(l.ids, b6.FeatureID{Type: vhC08Groups[2].t, Namespace: vhC08Groups[2].ns, Value: v})
	}
	buf := l.encode(nt)
	vhC08Check(l, nt, buf, 1+7*vTier(), 4+3*vTier(), advance)
}

// A failed Advance leaves the iterator where it was (the code's own contract:
// "Advance doesn't move it when failing"), so that a later Advance to an ID
// that is present still finds it.
//
//vh:steps=6000000 split=3
func VH_C08_AfterFailedAdvance() {
	nt := vhC08Table()
	l := &vhC08List{}
	n0 := 8
	k := 6 + vChoice("k", 3)
	v := uint64(0)
	for i := 0; i < n0; i++ {
		class := 0
		if i < k {
			class = 1
		}
		v = vhC08Value(i, v, class)
		l.ids = append(l.ids, b6.FeatureID{Type: vhC08Groups[0].t, Namespace: vhC08Groups[0].ns, Value: v})
	}
	buf := l.encode(nt)
	it := NewIterator(buf, nt)
	vAssert(it.Next(), "first")
	// beyond the end: same group, larger than the last value; or a later group
	var beyond b6.FeatureID
	if vBool("latergroup") {
		beyond = b6.FeatureID{Type: b6.FeatureTypeArea, Namespace: "a", Value: vU64("bv")}
	} else {
		beyond = b6.FeatureID{Type: vhC08Groups[0].t, Namespace: vhC08Groups[0].ns, Value: vU64("bv")}
		vAssume(beyond.Value > v)
	}
	vAssert(!it.Advance(beyond), "Advance beyond the end reports false")
	got := it.FeatureID()
	vAssert(got.Value == l.ids[0].Value, "a failed Advance leaves the current ID")
	vReach("failed-advance")
	w := 1 + vChoice("w", n0-1)
	vAssert(it.Advance(l.ids[w]), "a later Advance to a present ID succeeds")
	got = it.FeatureID()
	vAssert(got.Value == l.ids[w].Value, "a later Advance lands on that ID")
}
