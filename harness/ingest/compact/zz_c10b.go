//go:build verif

package compact

// C10: lat/lng records keep E7 integers exactly (int32 pairs).
func VH_C10_LatLngRecord() {
	ll := LatLng{LatE7: vI32("lat"), LngE7: vI32("lng")}
	var buf [16]byte
	n := ll.Marshal(TypeAndNamespaceInvalid, buf[:])
	var g LatLng
	m := g.Unmarshal(TypeAndNamespaceInvalid, buf[:])
	vReach("latlng")
	vAssert(m == n, "bytes consumed == bytes written")
	vAssert(g.LatE7 == ll.LatE7, "latitude E7 survives")
	vAssert(g.LngE7 == ll.LngE7, "longitude E7 survives")
}
