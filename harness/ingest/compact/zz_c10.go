//go:build verif

package compact

import (
	"diagonal.works/b6"
	"diagonal.works/b6/encoding"
)

// C10: type-and-namespace packing (type < 4, namespace < 2^13).
func VH_C10_TypeAndNamespace() {
	t := b6.FeatureType(vChoice("type", 4))
	ns := Namespace(vU16("ns"))
	vAssume(ns < 1<<13)
	tn := CombineTypeAndNamespace(t, ns)
	t2, ns2 := tn.Split()
	vReach("tn")
	vObsU64("tn", uint64(tn))
	vAssert(t2 == t, "type survives")
	vAssert(ns2 == ns, "namespace survives")
	// injective: a different pair gives a different code
	u := b6.FeatureType(vChoice("type2", 4))
	ms := Namespace(vU16("ns2"))
	vAssume(ms < 1<<13)
	if u != t || ms != ns {
		vAssert(CombineTypeAndNamespace(u, ms) != tn, "packing is injective")
	}
}

// C10: value-type packing: EncodeValueType either panics (value needs more
// than 62 bits) or is inverted by the decoder.
func VH_C10_ValueType() {
	t := b6.ExpressionType(vChoice("t", 4))
	v := vU64("v")
	vAssume(v < 1<<62)
	e := EncodeValueType(t, v)
	var buf [10]byte
	n := vhPutUvarint(buf[:], e)
	d, m := DecodeValue(buf[:])
	vReach("valuetype")
	vAssert(m == n, "bytes consumed")
	vAssert(d == v, "value survives")
	vAssert(b6.ExpressionType(e&((1<<ValueTypeBits)-1)) == t, "type survives")
}

// C10: geometry encoding + length packing (l < 2^60: the result must still go
// through EncodeValueType).
func VH_C10_Geometry() {
	e := GeometryEncoding(vChoice("e", 3))
	l := vInt("l")
	vAssume(l >= 0 && l < 1<<60)
	v := EncodeGeometry(e, l)
	vReach("geometry")
	vAssert(DecodeGeometryLen(v) == l, "length survives")
	vAssert(DecodeGeometryEncoding(v) == e, "encoding survives")
	// and through the varint + value type wrapper used by the records
	if l < 1<<58 {
		var buf [10]byte
		vhPutUvarint(buf[:], EncodeValueType(b6.ExpressionTypeExpressions, v))
		d, _ := DecodeValue(buf[:])
		vAssert(DecodeGeometryLen(d) == l, "length survives the value wrapper")
		vAssert(DecodeGeometryEncoding(d) == e, "encoding survives the value wrapper")
	}
	var buf [10]byte
	n := MarshalGeometryEncodingAndLength(e, l, buf[:])
	e2, l2, m := UnmarshalGeometryEncodingAndLength(buf[:])
	vAssert(e2 == e && l2 == l && m == n, "MarshalGeometryEncodingAndLength round-trips")
}

// C10: reference bit layout, any namespace vs. any primary, any 64-bit value.
func VH_C10_Reference() {
	r := Reference{TypeAndNamespace: TypeAndNamespace(vU16("tn")), Value: vU64("v")}
	primary := TypeAndNamespace(vU16("primary"))
	var buf [20]byte
	n := r.Marshal(primary, buf[:])
	var g Reference
	m := g.Unmarshal(primary, buf[:])
	vReach("reference")
	vObsInt("n", n)
	vAssert(m == n, "bytes consumed == bytes written")
	vAssert(g.TypeAndNamespace == r.TypeAndNamespace, "namespace survives")
	vAssert(g.Value == r.Value, "value survives")
	vAssert(MarshalledReference(buf[:]).Length() == n, "MarshalledReference.Length")
}

// C10: hash-map bucket headers for every layout the index builder creates.
// The layouts are read back from the real builder: addFeatureBlockBuilder is
// executed for every feature type and every count in {2^k-1, 2^k, 2^k+1} and
// the distinct layouts are collected; id, tag and length are symbolic.
//
//vh:steps=40000000
func VH_C10_BucketHeaderBuilderLayouts() {
	nt := &NamespaceTable{}
	nt.FillFromNamespaces([]b6.Namespace{b6.NamespaceOSMNode, b6.NamespaceOSMWay, b6.NamespaceOSMRelation, b6.NamespacePrivate})
	types := []b6.FeatureType{b6.FeatureTypePoint, b6.FeatureTypePath, b6.FeatureTypeArea, b6.FeatureTypeRelation}
	ks := []uint{0, 1, 2, 3, 7, 12, 31, 40}
	if vTier() == 1 {
		ks = ks[:0]
		for k := uint(0); k <= 40; k++ {
			ks = append(ks, k)
		}
	}
	var layouts []encoding.Uint64MapLayout
	for _, t := range types {
		for _, k := range ks {
			for d := uint64(0); d < 3; d++ {
				count := (uint64(1) << k) + d - 1
				if count == 0 {
					continue
				}
				builders := make(FeatureBlockBuilders)
				vhAddFeatureBlockLayout(builders, t, b6.NamespaceOSMNode, count, nt)
				for _, b := range builders {
					seen := false
					for _, l := range layouts {
						if l == b.Map.Layout {
							seen = true
						}
					}
					if !seen {
						layouts = append(layouts, b.Map.Layout)
					}
				}
			}
		}
	}
	layout := layouts[vChoice("layout", len(layouts))]
	id := vU64("id")
	tag := encoding.Tag(vU8("tag"))
	vAssume(int(tag) < 1<<uint(layout.TagBits))
	length := vInt("length")
	if vTier() == 0 {
		vAssume(length >= 0 && length < 1<<14)
	} else {
		vAssume(length >= 0 && length < 1<<31)
	}
	gid, gtag, glen, w, r := encoding.VHX_BucketHeaderRoundTrip(layout.BucketBits, layout.TagBits, id, tag, length)
	vReach("bucket-header")
	vAssert(w == r, "bytes consumed == bytes written")
	vAssert(gid == id, "bucket header: ID survives")
	vAssert(gtag == tag, "bucket header: tag survives")
	vAssert(glen == length, "bucket header: length survives")
}

// vhAddFeatureBlockLayout calls the real addFeatureBlockBuilder when the
// 2^bucketBits pointer table it allocates is small enough for the engine
// (count <= 4096); for larger counts it reproduces the builder's two layout
// inputs (bucketBitsForCount, tagBits) through the real NewUint64MapBuilder
// clamp rule (bucketBits >= tagBits).
func vhAddFeatureBlockLayout(builders FeatureBlockBuilders, t b6.FeatureType, ns b6.Namespace, count uint64, nt *NamespaceTable) {
	if count <= 1<<12 {
		addFeatureBlockBuilder(builders, t, ns, count, nt)
		return
	}
	bb, tb := bucketBitsForCount(count), tagBits[t]
	if bb < tb {
		bb = tb
	}
	key := NamespacedFeatureType{Namespace: nt.Encode(ns), FeatureType: t}
	builders[key] = &FeatureBlockBuilder{
		Header: FeatureBlockHeader{FeatureType: t},
		Map:    &encoding.Uint64MapBuilder{Layout: encoding.Uint64MapLayout{BucketBits: bb, TagBits: tb}},
	}
}

func vhPutUvarint(buf []byte, x uint64) int {
	i := 0
	for x >= 0x80 {
		buf[i] = byte(x) | 0x80
		x >>= 7
		i++
	}
	buf[i] = byte(x)
	return i + 1
}
