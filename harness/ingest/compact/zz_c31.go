//go:build verif

package compact

import (
	"diagonal.works/b6"
)

// C31: feature-ID order is consistent with the compact index's order: under a
// namespace table filled by FillFromNamespaces, b6.FeatureID.Less agrees with
// compact.FeatureIDs.Less on the encoded IDs.
//
//vh:steps=4000000
func VH_C31_LessMatchesCompactOrder() {
	nss := []b6.Namespace{b6.NamespaceOSMWay, "b", b6.NamespaceOSMNode, "a/c", "a"}
	var nt NamespaceTable
	nt.FillFromNamespaces(nss)
	mk := func(name string) b6.FeatureID {
		return b6.FeatureID{Type: b6.FeatureType(vU8(name+"type") & 3), Namespace: nss[vChoice(name+"ns", len(nss))], Value: vU64(name + "value")}
	}
	x, y := mk("x"), mk("y")
	var ids FeatureIDs
	ids.Append(nt.EncodeID(x))
	ids.Append(nt.EncodeID(y))
	vReach("order")
	vAssert(ids.Less(0, 1) == x.Less(y), "compact order of the encoded ids == FeatureID.Less")
	vAssert(ids.Less(1, 0) == y.Less(x), "compact order of the encoded ids == FeatureID.Less (swapped)")
	vAssert(nt.DecodeID(nt.EncodeID(x)) == x, "EncodeID/DecodeID round trip")
}
