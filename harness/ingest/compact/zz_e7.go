//go:build verif

package compact

import (
	"github.com/golang/geo/s1"
	"github.com/golang/geo/s2"
)

// E7-exact lat/lngs for the harnesses.
type s2LatLngE7 struct{ lat, lng int32 }

func (l s2LatLngE7) toS2() s2.LatLng {
	return s2.LatLng{Lat: s1.Angle(l.lat) * s1.E7, Lng: s1.Angle(l.lng) * s1.E7}
}

func s2LatLngE7FromPoint(p s2.Point) s2LatLngE7 {
	ll := s2.LatLngFromPoint(p)
	return s2LatLngE7{ll.Lat.E7(), ll.Lng.E7()}
}
