//go:build verif

package ingest

import (
	"diagonal.works/b6"
	"github.com/golang/geo/s1"
	"github.com/golang/geo/s2"
)

// C10: lat/lng point IDs. The real NewLatLngID and LatLngFromID are executed
// with the two E7 halves as symbolic int32s. The float side is not sent to the
// solver: s1.Angle(i)*s1.E7 is carried as "the float made from integer i" and
// (s1.Angle).E7 gives i back (engine/floatint.go; natively these are ordinary
// float operations, compared with the engine on seeded values every run).
//
//vh:assume[C10] (s1.Angle).E7 inverts s1.Angle(i)*s1.E7 exactly for every int32 i, and that map is injective (library contract; float arithmetic is not sent to the solver)
func VH_C10_LatLngID() {
	latE7 := vI32("lat")
	lngE7 := vI32("lng")
	ll := s2.LatLng{Lat: s1.Angle(latE7) * s1.E7, Lng: s1.Angle(lngE7) * s1.E7}
	id := NewLatLngID(ll)
	vAssert(id.Type == b6.FeatureTypePoint && id.Namespace == b6.NamespaceLatLng, "NewLatLngID: type and namespace")
	back, ok := LatLngFromID(id)
	vReach("latlng-id")
	vAssert(ok, "LatLngFromID accepts a lat/lng id")
	vAssert(back.Lat.E7() == latE7, "latitude survives NewLatLngID/LatLngFromID")
	vAssert(back.Lng.E7() == lngE7, "longitude survives NewLatLngID/LatLngFromID")
	vObsI64("lat", int64(back.Lat.E7()))
	vObsI64("lng", int64(back.Lng.E7()))
	// onto: every 64-bit id value is the id of the lat/lng it decodes to
	v := vU64("id")
	ll2, ok2 := LatLngFromID(b6.FeatureID{Type: b6.FeatureTypePoint, Namespace: b6.NamespaceLatLng, Value: v})
	vAssert(ok2, "LatLngFromID accepts any value in the lat/lng namespace")
	id2 := NewLatLngID(ll2)
	vAssert(id2.Value == v, "NewLatLngID(LatLngFromID(id)) == id")
	// distinct lat/lngs get distinct ids
	lat3, lng3 := vI32("lat"), vI32("lng")
	id3 := NewLatLngID(s2.LatLng{Lat: s1.Angle(lat3) * s1.E7, Lng: s1.Angle(lng3) * s1.E7})
	if id3.Value == id.Value {
		vAssert(lat3 == latE7 && lng3 == lngE7, "distinct lat/lngs get distinct ids")
	}
}
