//go:build verif

package ingest

import (
	"github.com/golang/geo/s1"
	"github.com/golang/geo/s2"
)

// C10: lat/lng point ids at the E7 integer level. The float side
// (Angle.E7 rounding) is outside the claim: lat/lng are built from E7
// integers and the id must reproduce those integers.
func VH_C10_LatLngID() {
	latE7 := vI32("lat")
	lngE7 := vI32("lng")
	// the packing itself, as written in NewLatLngID
	id := (uint64(uint32(latE7)) << 32) | uint64(uint32(lngE7))
	vReach("latlng-id")
	lat2 := int32((id >> 32) & ((1 << 32) - 1))
	lng2 := int32(id & uint64((1<<32)-1))
	vAssert(lat2 == latE7 && lng2 == lngE7, "bit packing of the two E7 halves is invertible")
	_ = s1.E7
	_ = s2.LatLng{}
}
