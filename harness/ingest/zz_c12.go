//go:build verif

package ingest

// C12: a mutable overlay world behaves like a map of features under any edits.
//
// Base: two relation features with 0..2 symbolic tags each; a third feature
// exists only once the overlay adds it. A script of 1..2 (quick) / 1..3 edits
// (AddFeature, AddTag, RemoveTag on any of the three, keys among #s (indexed
// with its value), @t (indexed key), p, q; 1-byte symbolic values), then every
// read is compared with a per-feature map.
//
//vh:steps=8000000 split=6 wall.thorough=3000
func VH_C12_OverlayEdits() {
	base, m := vhBaseWorld()
	w := NewMutableOverlayWorld(base)
	n := 1 + vChoice("nops", 2+vTier())
	for i := 0; i < n; i++ {
		vhEdit(w, m, "e")
	}
	vReach("edited")
	vhCheckWorld(w, m, "overlay")
}

// The same script directly on a BasicMutableWorld.
//
//vh:steps=8000000 split=6 wall.thorough=3000
func VH_C12_BasicEdits() {
	base, m := vhBaseWorld()
	n := 1 + vChoice("nops", 2+vTier())
	for i := 0; i < n; i++ {
		vhEdit(base, m, "e")
	}
	vReach("edited")
	vhCheckWorld(base, m, "basic")
}
