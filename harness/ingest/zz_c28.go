//go:build verif

package ingest

import (
	"context"
	"errors"
	"sync"
	"time"

	"diagonal.works/b6"
)

// C28: a callback error stops streaming and is reported, under every schedule
// (within the context bound) of the feeding goroutine and the workers.
//
// Inside the engine, context.WithCancel / WithCancelCause are replaced by a
// small model written here in Go (a context whose Done channel is closed by
// its cancel function); errgroup, channels, select, sync.WaitGroup, sync.Once
// and mutexes are executed with their blocking semantics. Natively the stubs
// are inert and the real context package is used.

type vhCtx struct {
	parent   context.Context
	mu       sync.Mutex // as in the real context: cancel and Err are synchronised (and so are scheduling points)
	done     chan struct{}
	canceled bool
}

var vhErrCanceled = errors.New("context canceled")

func (c *vhCtx) Deadline() (time.Time, bool) { return time.Time{}, false }
func (c *vhCtx) Done() <-chan struct{}       { return c.done }
func (c *vhCtx) Err() error {
	c.mu.Lock()
	defer c.mu.Unlock()
	if c.canceled {
		return vhErrCanceled
	}
	return nil
}
func (c *vhCtx) Value(key interface{}) interface{} { return nil }
func (c *vhCtx) cancel() {
	c.mu.Lock()
	defer c.mu.Unlock()
	if !c.canceled {
		c.canceled = true
		close(c.done)
	}
}

func vhInstallContext() {
	vStub("context.WithCancel", func(parent context.Context) (context.Context, context.CancelFunc) {
		c := &vhCtx{parent: parent, done: make(chan struct{})}
		return c, c.cancel
	})
	vStub("context.WithCancelCause", func(parent context.Context) (context.Context, context.CancelCauseFunc) {
		c := &vhCtx{parent: parent, done: make(chan struct{})}
		return c, func(error) { c.cancel() }
	})
}

var vhErrCallback = errors.New("callback failed")

// vhFailingCallback fails on its k-th invocation (k == n: never), once or
// from then on, and records what the statement is about.
type vhFailingCallback struct {
	failAt     int
	sticky     bool
	calls      int
	failed     bool
	failedBy   int
	lateCalls  int // calls by the goroutine that already received an error
	goroutines int
}

func (c *vhFailingCallback) call(g int) error {
	n := c.calls
	c.calls++
	vAssert(g >= 0 && g < c.goroutines, "the goroutine number passed to the callback is in range")
	if c.failed && g == c.failedBy {
		c.lateCalls++
	}
	if n == c.failAt || (c.sticky && c.failed) {
		if !c.failed {
			c.failed = true
			c.failedBy = g
		}
		return vhErrCallback
	}
	return nil
}

func (c *vhFailingCallback) check(err error, n int) {
	vReach("returned")
	if c.failed {
		vAssert(err != nil, "an error from the callback is reported, never success")
	} else {
		vAssert(err == nil, "no error without a failing callback")
		vAssert(c.calls == n, "every item is visited")
	}
}

func vhNewFailingCallback(n int) *vhFailingCallback {
	return &vhFailingCallback{goroutines: 1 + vChoice("goroutines", 2+vTier()), failAt: vChoice("failat", n+1), sticky: vBool("sticky")}
}

func vhC28Points(n int) []Feature {
	fs := make([]Feature, n)
	for i := range fs {
		fs[i] = &GenericFeature{ID: b6.FeatureID{Type: b6.FeatureTypePoint, Namespace: "diagonal.works/test", Value: uint64(i)}}
	}
	return fs
}

// MemoryFeatureSource.Read over 4 features.
//
//vh:steps=8000000 concurrent sched=400 preempt=1 preempt.thorough=2 paths.thorough=1000000
func VH_C28_MemoryFeatureSource() {
	vhInstallContext()
	const n = 4
	cb := vhNewFailingCallback(n)
	src := MemoryFeatureSource(vhC28Points(n))
	err := src.Read(ReadOptions{Goroutines: cb.goroutines}, func(f Feature, g int) error { return cb.call(g) }, context.Background())
	cb.check(err, n)
}

// EachFeature of a BasicMutableWorld (EachFeature -> eachIngestFeature ->
// feedFeatures, errgroup) over 4 features.
//
//vh:steps=8000000 concurrent sched=400 preempt=1 preempt.thorough=2 paths.thorough=1000000
func VH_C28_EachFeature() {
	vhInstallContext()
	const n = 4
	cb := vhNewFailingCallback(n)
	w := NewBasicMutableWorld()
	for _, f := range vhC28Points(n) {
		w.features.AddFeature(f)
	}
	err := w.EachFeature(func(f b6.Feature, g int) error { return cb.call(g) }, &b6.EachFeatureOptions{Goroutines: cb.goroutines})
	cb.check(err, n)
}

// ModifiedTags.EachModifiedTag over 3 modified tags of 2 features.
//
//vh:steps=8000000 concurrent sched=400 preempt=1 preempt.thorough=2 paths.thorough=1000000
func VH_C28_EachModifiedTag() {
	vhInstallContext()
	const n = 3
	cb := vhNewFailingCallback(n)
	m := NewModifiedTags()
	ps := vhC28Points(2)
	m.ModifyOrAddTag(ps[0].FeatureID(), b6.Tag{Key: "a", Value: b6.NewStringExpression("1")})
	m.ModifyOrAddTag(ps[0].FeatureID(), b6.Tag{Key: "b", Value: b6.NewStringExpression("2")})
	m.RemoveTag(ps[1].FeatureID(), "c")
	err := m.EachModifiedTag(func(t ModifiedTag, g int) error { return cb.call(g) }, &b6.EachFeatureOptions{Goroutines: cb.goroutines})
	cb.check(err, n)
}
