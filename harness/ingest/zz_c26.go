//go:build verif

package ingest

import (
	"diagonal.works/b6"
)

// C26: the real changes report their own outcome faithfully: AddTags /
// RemoveTags / AddFeatures.Apply return an error exactly when a step failed,
// and on success the ids they return are the features they modified.
//
//vh:steps=6000000 split=4
func VH_C26_ChangesReportTheirOutcome() {
	base, m := vhBaseWorld()
	var w MutableWorld = base
	if vBool("overlay") {
		w = NewMutableOverlayWorld(base)
	}
	n := 1 + vChoice("n", 3)
	var change AddTags
	fails := false
	var targets []int
	for j := 0; j < n; j++ {
		target := vChoice("target", 3) // feature 2 does not exist
		change = append(change, AddTag{ID: vhFeatureID(target), Tag: b6.Tag{Key: "p", Value: b6.NewStringExpression("v")}})
		targets = append(targets, target)
		if target == 2 {
			fails = true
		}
	}
	_ = m
	ids, err := change.Apply(w)
	vReach("applied")
	vAssert((err != nil) == fails, "AddTags.Apply reports an error exactly when adding a tag failed")
	if err == nil {
		var got []b6.FeatureID
		it := ids.Begin()
		for {
			ok, _ := it.Next()
			if !ok {
				break
			}
			got = append(got, it.Key())
			vAssert(len(got) <= n, "finite")
		}
		vAssert(len(got) == n, "the returned ids are the features the change modified")
		for i := range got {
			if i < n {
				vAssert(got[i] == vhFeatureID(targets[i]), "the returned ids are the features the change modified")
			}
		}
	}
}
