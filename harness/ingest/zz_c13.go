//go:build verif

package ingest

import (
	"diagonal.works/b6"
	"github.com/golang/geo/s2"
)

// C13: a rejected change leaves the world as it was.

func vhPointID(i int) b6.FeatureID {
	return b6.FeatureID{Type: b6.FeatureTypePoint, Namespace: vhNS, Value: uint64(i)}
}

var vhPathID = b6.FeatureID{Type: b6.FeatureTypePath, Namespace: vhNS, Value: 1}
var vhAreaID = b6.FeatureID{Type: b6.FeatureTypeArea, Namespace: vhNS, Value: 1}

func vhPoint(i int) *GenericFeature {
	lls := []s2.LatLng{s2.LatLngFromDegrees(51.5, -0.1), s2.LatLngFromDegrees(51.5, -0.09), s2.LatLngFromDegrees(51.51, -0.09)}
	return &GenericFeature{ID: vhPointID(i), Tags: b6.Tags{{Key: b6.PointTag, Value: b6.NewPointExpressionFromLatLng(lls[i])}, {Key: "name", Value: b6.NewStringExpression("p")}}}
}

func vhPath(points []int) *GenericFeature {
	refs := make([]b6.AnyExpression, len(points))
	for i, p := range points {
		refs[i] = b6.FeatureIDExpression(vhPointID(p))
	}
	return &GenericFeature{ID: vhPathID, Tags: b6.Tags{{Key: b6.PathTag, Value: b6.NewExpressions(refs)}, {Key: "#highway", Value: b6.NewStringExpression("path")}}}
}

func vhNoCovering(g b6.Geometry, coverer s2.RegionCoverer) s2.CellUnion {
	return s2.CellUnion{}
}

// vhGeometryWorld: three points, the closed path a,b,c,a and an area on it,
// put into the world's tables directly (so that the pre-state does not depend
// on S2 loop validation).
func vhGeometryWorld(features *FeaturesByID, references *FeatureReferencesByID) {
	vhGeometryWorldWithArea(features, references, false)
}

// vhGeometryWorldWithArea: with mixed, the area's first polygon is given
// explicitly (an s2.Polygon that is never looked into here) and its second by
// the path's ID; otherwise its only polygon is given by the path's ID.
func vhGeometryWorldWithArea(features *FeaturesByID, references *FeatureReferencesByID, mixed bool) {
	add := func(f Feature) {
		features.AddFeature(f)
		references.AddFeature(f)
	}
	for i := 0; i < 3; i++ {
		add(vhPoint(i))
	}
	add(vhPath([]int{0, 1, 2, 0}))
	a := NewAreaFeature(1)
	if mixed {
		a = NewAreaFeature(2)
		a.SetPolygon(0, &s2.Polygon{})
		a.SetPathIDs(1, []b6.FeatureID{vhPathID})
	} else {
		a.SetPathIDs(0, []b6.FeatureID{vhPathID})
	}
	a.AreaID = vhAreaID.ToAreaID()
	a.AddTag(b6.Tag{Key: "#landuse", Value: b6.NewStringExpression("park")})
	add(a)
}

// vhObserve lists what the queries of the statement return for the geometry
// world; compared before and after a rejected change.
func vhObserve(w b6.World) []uint64 {
	var obs []uint64
	rec := func(v uint64) { obs = append(obs, v) }
	ids := []b6.FeatureID{vhPointID(0), vhPointID(1), vhPointID(2), vhPointID(3), vhPathID, vhAreaID}
	for _, id := range ids {
		f := w.FindFeatureByID(id)
		if f == nil {
			rec(0)
			continue
		}
		rec(1)
		rec(uint64(len(f.AllTags())))
		if p, ok := f.(b6.PhysicalFeature); ok && id.Type == b6.FeatureTypePath {
			rec(uint64(p.GeometryLen()))
			for i := 0; i < p.GeometryLen(); i++ {
				rec(p.Reference(i).Source().Value)
			}
		}
		if a, ok := f.(b6.AreaFeature); ok {
			rec(uint64(a.Len()))
			for i := 0; i < a.Len(); i++ {
				for _, path := range a.Feature(i) {
					rec(path.FeatureID().Value)
					rec(uint64(path.GeometryLen()))
				}
			}
		}
		// who references it (as a set: the order of the result is unspecified)
		n := uint64(0)
		refs := w.FindReferences(id)
		for refs.Next() {
			n += 1 << (uint64(refs.FeatureID().Type)*8 + refs.FeatureID().Value*2)
		}
		rec(n)
	}
	return obs
}

func vhSameObs(a, b []uint64, what string) {
	vAssert(len(a) == len(b), what)
	ok := true
	for i := range a {
		if i < len(b) {
			ok = ok && a[i] == b[i]
		}
	}
	vAssert(ok, what)
}

// vhReplacement: the path with 1..4 points drawn from a, b, c and the missing
// point d; closed candidates (which would need S2 loop validation) are left
// out - a replacement that is accepted is not a C13 case.
func vhReplacement() *GenericFeature {
	n := 1 + vChoice("len", 4)
	pts := make([]int, n)
	for i := range pts {
		pts[i] = vChoice("pt", 4)
	}
	if n >= 2 {
		vAssume(pts[0] != pts[n-1])
	}
	return vhPath(pts)
}

// BasicMutableWorld: replacing the path under the area by a path that is
// itself invalid (one point, missing point) or that invalidates the area
// (open, fewer than three points).
//
//vh:steps=8000000 split=3
func VH_C13_BasicWorldRejectedReplacement() {
	vStub("diagonal.works/b6.Covering", vhNoCovering)
	w := NewBasicMutableWorld()
	vhGeometryWorld(w.features, w.references)
	before := vhObserve(w)
	err := w.AddFeature(vhReplacement())
	vReach("attempted")
	if err != nil {
		vReach("rejected")
		vhSameObs(vhObserve(w), before, "a rejected AddFeature leaves every query answer unchanged (basic world)")
	}
}

// MutableOverlayWorld over a base holding the same features: the path is
// first copied into the overlay by a tag edit or by re-adding it, or lives
// only in the base.
//
//vh:steps=8000000 split=4
func VH_C13_OverlayWorldRejectedReplacement() {
	vStub("diagonal.works/b6.Covering", vhNoCovering)
	base := NewBasicMutableWorld()
	vhGeometryWorld(base.features, base.references)
	w := NewMutableOverlayWorld(base)
	switch vChoice("overlaystate", 3) {
	case 1: // path and area copied into the overlay
		vhGeometryWorld(w.features, w.references)
	case 2: // a plain tag edit on the path
		w.AddTag(vhPathID, b6.Tag{Key: "name", Value: b6.NewStringExpression("n")})
	}
	before := vhObserve(w)
	err := w.AddFeature(vhReplacement())
	vReach("attempted")
	if err != nil {
		vReach("rejected")
		vhSameObs(vhObserve(w), before, "a rejected AddFeature leaves every query answer unchanged (overlay world)")
	}
}

// MergedChange: 1..2 parts, each a list of 1..2 tag additions on an existing
// or a missing feature; either every part is applied or the world is unchanged.
//
//vh:steps=8000000 split=5
func VH_C13_MergedChangeIsAtomic() {
	// fixed base: feature 0 has p=x, feature 1 has #s=x
	base := NewBasicMutableWorld()
	m := &vhWorldModel{f: make([]*vhTagsModel, 3)}
	for i, tag := range []b6.Tag{{Key: "p", Value: b6.NewStringExpression("x")}, {Key: "#s", Value: b6.NewStringExpression("x")}} {
		f := NewRelationFeature(0)
		f.RelationID = vhFeatureID(i).ToRelationID()
		f.AddTag(tag)
		base.AddFeature(f)
		m.f[i] = &vhTagsModel{keys: []string{tag.Key}, vals: []string{"x"}, member: -1}
	}
	var w MutableWorld = base
	if vBool("overlay") {
		w = NewMutableOverlayWorld(base)
	}
	before := m.clone()
	nparts := 1 + vChoice("nparts", 2)
	var change MergedChange
	fails := false
	for i := 0; i < nparts; i++ {
		var part AddTags
		nt := 1
		if nparts == 1 || vTier() == 1 {
			nt = 1 + vChoice("ntags", 2)
		}
		for j := 0; j < nt; j++ {
			target := vChoice("target", 3) // feature 2 does not exist
			k := vhKeys[vChoice("key", len(vhKeys))]
			v := vhValue("c", k)
			part = append(part, AddTag{ID: vhFeatureID(target), Tag: b6.Tag{Key: k, Value: b6.NewStringExpression(v)}})
			if target == 2 {
				fails = true
			} else {
				m.f[target].set(k, v)
			}
		}
		change = append(change, part)
	}
	_, err := change.Apply(w)
	vReach("applied")
	vAssert((err != nil) == fails, "a merged change fails exactly when one of its steps fails")
	if err != nil {
		vhCheckWorld(w, before, "after a failed merged change")
	} else {
		vhCheckWorld(w, m, "after a merged change")
	}
}
