//go:build verif

package ingest

import (
	"diagonal.works/b6"
)

// C03: tag search returns exactly the matching features in ID order.
//
// Features carry any combination of the searchable tags #a (x or y), #ab (x or
// y: a key that has #a as a string prefix) and @c; the query is drawn from a
// catalogue of trees over all/tagged/keyed/typed/and/or. The oracle is an
// evaluator of the statement's semantics written here (Query.Matches is not
// used: Typed.Matches ignores its inner query).

type vhC03Tags struct {
	a, ab string // "" = absent
	c     bool
}

func vhC03Feature(i int, name string) (*RelationFeature, vhC03Tags) {
	r := NewRelationFeature(0)
	r.RelationID = vhFeatureID(i).ToRelationID()
	var t vhC03Tags
	vals := []string{"", "x", "y"}
	t.a = vals[vChoice(name+"a", 3)]
	if name != "r" || vTier() == 1 { // quick: a replacement only varies #a
		t.ab = vals[vChoice(name+"ab", 3)]
		t.c = vBool(name + "c")
	}
	if t.a != "" {
		r.AddTag(b6.Tag{Key: "#a", Value: b6.NewStringExpression(t.a)})
	}
	if t.c {
		r.AddTag(b6.Tag{Key: "@c", Value: b6.NewStringExpression("1")})
	}
	if t.ab != "" {
		r.AddTag(b6.Tag{Key: "#ab", Value: b6.NewStringExpression(t.ab)})
	}
	r.AddTag(b6.Tag{Key: "plain", Value: b6.NewStringExpression("z")})
	return r, t
}

const vhC03NumQueries = 13

func vhC03Query(which int) (b6.Query, func(t vhC03Tags) bool) {
	tagged := func(k, v string) b6.Query { return b6.Tagged{Key: k, Value: b6.NewStringExpression(v)} }
	switch which {
	case 0:
		return b6.All{}, func(t vhC03Tags) bool { return true }
	case 1:
		return tagged("#a", "x"), func(t vhC03Tags) bool { return t.a == "x" }
	case 2:
		return b6.Keyed{Key: "#a"}, func(t vhC03Tags) bool { return t.a != "" }
	case 3:
		return b6.Keyed{Key: "#ab"}, func(t vhC03Tags) bool { return t.ab != "" }
	case 4:
		return b6.Keyed{Key: "@c"}, func(t vhC03Tags) bool { return t.c }
	case 5:
		return b6.Typed{Type: b6.FeatureTypeRelation, Query: tagged("#a", "x")}, func(t vhC03Tags) bool { return t.a == "x" }
	case 6:
		return b6.Typed{Type: b6.FeatureTypePath, Query: b6.All{}}, func(t vhC03Tags) bool { return false }
	case 7:
		return b6.Intersection{tagged("#a", "x"), b6.Keyed{Key: "@c"}}, func(t vhC03Tags) bool { return t.a == "x" && t.c }
	case 8:
		return b6.Union{tagged("#a", "x"), tagged("#ab", "y")}, func(t vhC03Tags) bool { return t.a == "x" || t.ab == "y" }
	case 9:
		return b6.Intersection{b6.Keyed{Key: "#a"}, b6.Union{b6.Keyed{Key: "@c"}, tagged("#ab", "x")}}, func(t vhC03Tags) bool {
			return t.a != "" && (t.c || t.ab == "x")
		}
	case 10:
		return b6.Union{b6.Intersection{tagged("#a", "y"), tagged("#ab", "y")}, b6.Keyed{Key: "@c"}}, func(t vhC03Tags) bool {
			return (t.a == "y" && t.ab == "y") || t.c
		}
	case 11:
		return b6.Typed{Type: b6.FeatureTypeRelation, Query: b6.Union{b6.Keyed{Key: "#a"}, b6.Keyed{Key: "@c"}}}, func(t vhC03Tags) bool { return t.a != "" || t.c }
	default:
		return tagged("plain", "z"), func(t vhC03Tags) bool { return false } // not a searchable tag
	}
}

func vhC03Check(w b6.World, tags []vhC03Tags, which int, what string) {
	q, matches := vhC03Query(which)
	fs := w.FindFeatures(q)
	seen := make([]int, len(tags))
	var last b6.FeatureID
	n := 0
	for fs.Next() {
		n++
		vAssert(n <= 2*len(tags)+2, what+": finite")
		id := fs.FeatureID()
		if n > 1 {
			vAssert(last.Less(id), what+": strictly increasing ID order")
		}
		last = id
		known := false
		for i := range tags {
			if id == vhFeatureID(i) {
				seen[i]++
				known = true
			}
		}
		vAssert(known, what+": only features of the world")
	}
	for i := range tags {
		if matches(tags[i]) {
			vAssert(seen[i] == 1, what+": every feature whose tags satisfy the query is returned once")
		} else {
			vAssert(seen[i] == 0, what+": no feature whose tags do not satisfy the query is returned")
		}
	}
}

//vh:steps=8000000 split=5 wall.thorough=3000
func VH_C03_BasicWorld() {
	w := NewBasicMutableWorld()
	n := 2 + vTier()
	tags := make([]vhC03Tags, n)
	for i := 0; i < n; i++ {
		f, t := vhC03Feature(i, "f")
		if err := w.AddFeature(f); err != nil {
			vAssert(false, "AddFeature")
		}
		tags[i] = t
	}
	vReach("built")
	vhC03Check(w, tags, vChoice("query", vhC03NumQueries), "basic world")
}

// Overlay world: feature 0 in the base, feature 1 only in the overlay, and
// feature 0 optionally replaced in the overlay by a version with other tags.
//
//vh:steps=8000000 split=5 wall.thorough=3000
func VH_C03_OverlayWorld() {
	base := NewBasicMutableWorld()
	tags := make([]vhC03Tags, 2)
	f0, t0 := vhC03Feature(0, "b")
	base.AddFeature(f0)
	tags[0] = t0
	w := NewMutableOverlayWorld(base)
	f1, t1 := vhC03Feature(1, "o")
	w.AddFeature(f1)
	tags[1] = t1
	if vBool("replace") {
		f0b, t0b := vhC03Feature(0, "r")
		w.AddFeature(f0b)
		tags[0] = t0b
	}
	vReach("built")
	vhC03Check(w, tags, vChoice("query", vhC03NumQueries), "overlay world")
}
