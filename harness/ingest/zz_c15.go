//go:build verif

package ingest

import (
	"diagonal.works/b6"
)

// C15: reference queries return the current referrers and always terminate.

const vhNS = b6.Namespace("diagonal.works/test")

func vhRelID(v uint64) b6.FeatureID {
	return b6.FeatureID{Type: b6.FeatureTypeRelation, Namespace: vhNS, Value: v}
}

// vhRelation builds relation r<v> whose members are the given feature ids.
func vhRelation(v uint64, members []b6.FeatureID) *RelationFeature {
	r := NewRelationFeature(len(members))
	r.RelationID = vhRelID(v).ToRelationID()
	for i, m := range members {
		r.Members[i] = b6.RelationMember{ID: m}
	}
	return r
}

type vhRefModel struct {
	ids     []uint64   // relation values, in insertion order (distinct)
	members [][]uint64 // current members of each (relation values)
}

func (m *vhRefModel) set(v uint64, members []uint64) {
	for i := range m.ids {
		if m.ids[i] == v {
			m.members[i] = members
			return
		}
	}
	m.ids = append(m.ids, v)
	m.members = append(m.members, members)
}

// referrers computes the transitive closure of "has x as a member" by a
// worklist (bounded by the number of relations).
func (m *vhRefModel) referrers(x uint64) []bool {
	in := make([]bool, len(m.ids))
	reach := []uint64{x}
	for round := 0; round <= len(m.ids); round++ {
		for i := range m.ids {
			if in[i] {
				continue
			}
			for _, mem := range m.members[i] {
				hit := false
				for _, r := range reach {
					if mem == r {
						hit = true
					}
				}
				if hit {
					in[i] = true
					reach = append(reach, m.ids[i])
					break
				}
			}
		}
	}
	return in
}

func vhCheckReferrers(w b6.World, m *vhRefModel, x uint64, what string) {
	want := m.referrers(x)
	fs := w.FindReferences(vhRelID(x))
	seen := make([]int, len(m.ids))
	n := 0
	for fs.Next() {
		n++
		vAssert(n <= 2*len(m.ids)+2, what+": the result is finite")
		id := fs.FeatureID()
		found := false
		for i := range m.ids {
			if id.Type == b6.FeatureTypeRelation && id.Value == m.ids[i] {
				seen[i]++
				found = true
			}
		}
		vAssert(found, what+": only relations of the world are returned")
	}
	for i := range m.ids {
		if want[i] {
			vAssert(seen[i] == 1, what+": every current referrer is returned exactly once")
		} else {
			vAssert(seen[i] == 0, what+": a feature that does not reference it is not returned")
		}
	}
	// the typed convenience query agrees
	rs := w.FindRelationsByFeature(vhRelID(x))
	k := 0
	for rs.Next() {
		k++
		vAssert(k <= 2*len(m.ids)+2, what+": FindRelationsByFeature is finite")
	}
	cnt := 0
	for i := range want {
		if want[i] {
			cnt++
		}
	}
	vAssert(k == cnt, what+": FindRelationsByFeature returns the same referrers")
}

func vhC15Script(w MutableWorld, m *vhRefModel, nrel int, nrepl int) {
	// relations with values < 4 whose members are relations with values < 4:
	// membership graphs incl. self-reference and cycles arise from the solver's
	// choice of equal values
	for i := 0; i < nrel+nrepl; i++ {
		v := uint64(vU8("id") & 3)
		if i < nrel {
			for _, old := range m.ids {
				vAssume(v != old) // the first nrel are new features; the rest replace
			}
		} else {
			known := false
			for _, old := range m.ids {
				known = known || v == old
			}
			vAssume(known)
		}
		nm := vChoice("nmembers", 2+vTier())
		if i >= nrel {
			nm = vChoice("nmembers", 4) // a replacement has 0..3 members (a repeated member followed by another)
		}
		mem := make([]uint64, nm)
		ids := make([]b6.FeatureID, nm)
		for j := range mem {
			mem[j] = uint64(vU8("member") & 3)
			ids[j] = vhRelID(mem[j])
		}
		err := w.AddFeature(vhRelation(v, ids))
		vAssert(err == nil, "adding a relation succeeds")
		m.set(v, mem)
	}
}

// BasicMutableWorld.
//
//vh:steps=6000000 split=5 recursion=violation depth=120 wall.thorough=2400
func VH_C15_BasicWorld() {
	w := NewBasicMutableWorld()
	m := &vhRefModel{}
	vhC15Script(w, m, 2+vTier(), 1)
	vReach("references")
	vhCheckReferrers(w, m, uint64(vU8("x")&3), "basic world")
}

// MutableOverlayWorld over a base that already holds relations.
//
//vh:steps=6000000 split=5 recursion=violation depth=120 wall.thorough=2400
func VH_C15_OverlayWorld() {
	base := NewBasicMutableWorld()
	m := &vhRefModel{}
	vhC15Script(base, m, 2, 0)
	w := NewMutableOverlayWorld(base)
	vhC15Script(w, m, vTier(), 1)
	vReach("references")
	vhCheckReferrers(w, m, uint64(vU8("x")&3), "overlay world")
}
