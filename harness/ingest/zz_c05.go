//go:build verif

package ingest

import (
	"diagonal.works/b6"
	"diagonal.works/b6/geometry"
	"github.com/golang/geo/s2"
)

// C05 (boolean skeleton): a spatial query's intersection test accepts a
// feature exactly when the statement's combination of the exact geometric
// predicates does. The S2 predicates themselves (ContainsPoint, IntersectsCell,
// Intersects) are replaced by an arbitrary truth assignment per pair of
// arguments; what is decided is how the real Matches code combines them:
// a point matches a multipolygon when ANY polygon contains it, a path when a
// vertex lies in any polygon (the documented approximation), an area when any
// pair of polygons intersects, cells when any cell is hit.

type vhTruth struct {
	memo map[[2]int]bool
	ids  map[interface{}]int
}

var vhT *vhTruth

func (t *vhTruth) id(x interface{}) int {
	if i, ok := t.ids[x]; ok {
		return i
	}
	i := len(t.ids)
	t.ids[x] = i
	return i
}

func (t *vhTruth) pred(kind int, a, b interface{}) bool {
	k := [2]int{kind*1000 + t.id(a), t.id(b)}
	if v, ok := t.memo[k]; ok {
		return v
	}
	v := vBool("pred")
	t.memo[k] = v
	return v
}

func vhPolygonContainsPoint(p *s2.Polygon, pt s2.Point) bool { return vhT.pred(1, p, pt) }
func vhPolygonIntersectsCell(p *s2.Polygon, c s2.Cell) bool   { return vhT.pred(2, p, c.ID()) }
func vhPolygonIntersects(p *s2.Polygon, o *s2.Polygon) bool   { return vhT.pred(3, p, o) }
func vhCellContainsPoint(c s2.Cell, pt s2.Point) bool         { return vhT.pred(4, c.ID(), pt) }

func vhStubGeometry() {
	vhT = &vhTruth{memo: map[[2]int]bool{}, ids: map[interface{}]int{}}
	vStub("(*github.com/golang/geo/s2.Polygon).ContainsPoint", vhPolygonContainsPoint)
	vStub("(*github.com/golang/geo/s2.Polygon).IntersectsCell", vhPolygonIntersectsCell)
	vStub("(*github.com/golang/geo/s2.Polygon).Intersects", vhPolygonIntersects)
	vStub("(github.com/golang/geo/s2.Cell).ContainsPoint", vhCellContainsPoint)
}

//vh:steps=8000000 split=4 novalidate
//vh:assume[C05] the exact S2 predicates (Polygon.ContainsPoint / IntersectsCell / Intersects, Cell.ContainsPoint) are replaced by arbitrary truth assignments per argument pair; tolerances and the predicates themselves are outside
func VH_C05_BooleanSkeleton() {
	vhStubGeometry()
	// query regions: 1..3 polygons / cells
	nq := 1 + vChoice("nq", 3)
	polygons := make(geometry.MultiPolygon, nq)
	cells := make([]s2.Cell, nq)
	for i := range polygons {
		polygons[i] = &s2.Polygon{}
		cells[i] = s2.CellFromCellID(s2.CellIDFromFace(i).ChildBeginAtLevel(4))
	}
	points := []s2.Point{s2.PointFromLatLng(s2.LatLngFromDegrees(51.5, -0.1)), s2.PointFromLatLng(s2.LatLngFromDegrees(51.5, -0.09)), s2.PointFromLatLng(s2.LatLngFromDegrees(51.51, -0.09))}
	// the feature: a point, or an area of 1..2 polygons
	features := NewFeaturesByID()
	var f b6.Feature
	var fpolys []*s2.Polygon
	kind := vChoice("feature", 2)
	if kind == 0 {
		p := vhPoint(0)
		features.AddFeature(p)
		f = features.FindFeatureByID(p.FeatureID())
	} else {
		a := NewAreaFeature(1 + vChoice("npolygons", 2))
		a.AreaID = vhAreaID.ToAreaID()
		for i := 0; i < a.Len(); i++ {
			fp := &s2.Polygon{}
			fpolys = append(fpolys, fp)
			a.SetPolygon(i, fp)
		}
		features.AddFeature(a)
		f = features.FindFeatureByID(a.FeatureID())
	}
	vReach("built")
	switch vChoice("query", 3) {
	case 0: // multipolygon
		got := b6.IntersectsMultiPolygon{MultiPolygon: polygons}.Matches(f, nil)
		want := false
		if kind == 0 {
			for _, q := range polygons {
				want = want || vhT.pred(1, q, points[0])
			}
			vAssert(got == want, "a point matches a multipolygon exactly when one of its polygons contains it")
		} else {
			for _, fp := range fpolys {
				for _, q := range polygons {
					want = want || vhT.pred(3, fp, q)
				}
			}
			vAssert(got == want, "an area matches a multipolygon exactly when a pair of polygons intersects")
		}
	case 1: // cells
		got := b6.IntersectsCells{Cells: cells}.Matches(f, nil)
		want := false
		if kind == 0 {
			for _, c := range cells {
				want = want || vhT.pred(4, c.ID(), points[0])
			}
			vAssert(got == want, "a point matches cells exactly when one of them contains it")
		} else {
			for _, fp := range fpolys {
				for _, c := range cells {
					want = want || vhT.pred(2, fp, c.ID())
				}
			}
			vAssert(got == want, "an area matches cells exactly when one of its polygons touches one of them")
		}
	case 2: // point / polyline against an area
		if kind == 1 {
			got := b6.IntersectsPoint{Point: points[1]}.Matches(f, nil)
			want := false
			for _, fp := range fpolys {
				want = want || vhT.pred(1, fp, points[1])
			}
			vAssert(got == want, "an area matches a point exactly when one of its polygons contains it")
			line := s2.Polyline(points)
			got = b6.IntersectsPolyline{Polyline: &line}.Matches(f, nil)
			want = false
			for _, fp := range fpolys {
				for _, v := range points {
					want = want || vhT.pred(1, fp, v)
				}
			}
			vAssert(got == want, "an area matches a polyline exactly when a vertex lies in one of its polygons (documented approximation)")
		}
	}
}
