//go:build verif

package ingest

import (
	"diagonal.works/b6"
)

// C37: every feature present in an edited world is valid.
//
// The geometry world of C13 (three points, closed path a,b,c,a, an area on it
// whose only polygon is that path, or - by decision - whose first polygon is
// explicit and whose second is that path)
// receives one AddFeature of a replacement path (1..4 points from a, b, c and
// a missing point d; closed candidates, which need S2 loop validation, are
// left out). Whether the change is accepted or rejected, afterwards the path
// has at least two points that all resolve to locations, and the area refers
// to an existing closed path of at least three points.

func vhCheckValid(w b6.World, what string) {
	p := w.FindFeatureByID(vhPathID)
	vAssert(p != nil, what+": the path still exists")
	if p != nil {
		path := p.(b6.PhysicalFeature)
		vAssert(path.GeometryLen() >= 2, what+": paths have at least two points")
		for i := 0; i < path.GeometryLen(); i++ {
			_, err := w.FindLocationByID(path.Reference(i).Source())
			vAssert(err == nil, what+": every point of a path resolves to a location")
		}
	}
	a := w.FindFeatureByID(vhAreaID)
	vAssert(a != nil, what+": the area still exists")
	if a != nil {
		area := a.(b6.AreaFeature)
		for i := 0; i < area.Len(); i++ {
			for _, path := range area.Feature(i) {
				vAssert(path != nil, what+": areas refer to existing paths")
				if path != nil {
					n := path.GeometryLen()
					vAssert(n >= 3, what+": areas refer to paths of at least three points")
					if n >= 1 {
						vAssert(path.Reference(0).Source() == path.Reference(n-1).Source(), what+": areas refer to closed paths")
					}
				}
			}
		}
	}
}

//vh:steps=8000000 split=3
func VH_C37_BasicWorldStaysValid() {
	vStub("diagonal.works/b6.Covering", vhNoCovering)
	w := NewBasicMutableWorld()
	vhGeometryWorldWithArea(w.features, w.references, vBool("mixedarea"))
	vhCheckValid(w, "initial world")
	w.AddFeature(vhReplacement())
	vReach("edited")
	vhCheckValid(w, "basic world after AddFeature")
}

//vh:steps=8000000 split=4
func VH_C37_OverlayWorldStaysValid() {
	vStub("diagonal.works/b6.Covering", vhNoCovering)
	base := NewBasicMutableWorld()
	mixed := vBool("mixedarea")
	vhGeometryWorldWithArea(base.features, base.references, mixed)
	w := NewMutableOverlayWorld(base)
	switch vChoice("overlaystate", 3) {
	case 1:
		vhGeometryWorldWithArea(w.features, w.references, mixed)
	case 2:
		w.AddTag(vhPathID, b6.Tag{Key: "name", Value: b6.NewStringExpression("n")})
	}
	w.AddFeature(vhReplacement())
	vReach("edited")
	vhCheckValid(w, "overlay world after AddFeature")
}
