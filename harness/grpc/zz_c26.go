//go:build verif

package grpc

import (
	"errors"
	"sync"

	"diagonal.works/b6"
	"diagonal.works/b6/api"
	"diagonal.works/b6/ingest"
	pb "diagonal.works/b6/proto"
)

// C26: the gRPC service's Evaluate, from the return of the VM onwards
// (api.Evaluate stubbed as in the api harness).

type vhChange struct {
	fail bool
	ids  []b6.FeatureID
	n    *int
}

func (c *vhChange) Apply(w ingest.MutableWorld) (b6.Collection[b6.FeatureID, b6.FeatureID], error) {
	*c.n++
	r := b6.ArrayCollection[b6.FeatureID, b6.FeatureID]{Keys: c.ids, Values: c.ids}
	if c.fail {
		return r.Collection(), errors.New("apply failed")
	}
	return r.Collection(), nil
}

type vhWorlds struct {
	ingest.Worlds
	w ingest.MutableWorld
}

func (v vhWorlds) FindOrCreateWorld(id b6.FeatureID) ingest.MutableWorld { return v.w }

var vhEvalResult interface{}
var vhEvalErr error

//vh:steps=6000000 novalidate
//vh:assume[C26] api.Evaluate (the VM) is replaced by a stub returning a change / a value / an error; Simplify by the identity; proto.Marshal (a self-check of the response) by a no-op
func VH_C26_ServiceReportsApplyOutcome() {
	vStub("diagonal.works/b6/api.Evaluate", func(e b6.Expression, c *api.Context) (interface{}, error) { return vhEvalResult, vhEvalErr })
	vStub("diagonal.works/b6/api.Simplify", func(e b6.Expression, f api.SymbolArgCounts) b6.Expression { return e })
	vStub("google.golang.org/protobuf/proto.Marshal", func(m interface{}) ([]byte, error) { return nil, nil })
	applied := 0
	nids := vChoice("nids", 3)
	ids := make([]b6.FeatureID, nids)
	for i := range ids {
		ids[i] = b6.FeatureID{Type: b6.FeatureTypePoint, Namespace: "ns", Value: vU64("id")}
	}
	change := &vhChange{fail: vBool("applyfails"), ids: ids, n: &applied}
	kind := vChoice("kind", 3)
	switch kind {
	case 0:
		vhEvalResult, vhEvalErr = change, nil
	case 1:
		vhEvalResult, vhEvalErr = 42, nil
	case 2:
		vhEvalResult, vhEvalErr = nil, errors.New("evaluation failed")
	}
	s := &service{worlds: vhWorlds{w: ingest.NewBasicMutableWorld()}, lock: &sync.RWMutex{}}
	req := &pb.EvaluateRequestProto{Version: b6.ApiVersion, Request: &pb.NodeProto{Node: &pb.NodeProto_Literal{Literal: &pb.LiteralNodeProto{Value: &pb.LiteralNodeProto_IntValue{IntValue: 1}}}}}
	resp, err := s.Evaluate(nil, req)
	vReach("evaluated")
	switch kind {
	case 0:
		vAssert(applied == 1, "the change is applied exactly once")
		vAssert((err != nil) == change.fail, "the response is an error exactly when applying the change failed")
		if err == nil {
			c := resp.GetResult().GetLiteral().GetCollectionValue()
			vAssert(c != nil && len(c.Keys) == nids, "the response carries the ids the change modified")
			if c != nil {
				for i := range c.Keys {
					if i < nids {
						vAssert(c.Keys[i].GetFeatureIDValue().GetValue() == ids[i].Value, "the response carries the ids the change modified")
					}
				}
			}
		}
	case 1:
		vAssert(err == nil && resp.GetResult().GetLiteral().GetIntValue() == 42 && applied == 0, "a plain value is returned")
	case 2:
		vAssert(err != nil && applied == 0, "an evaluation error is reported and nothing is applied")
	}
}
