//go:build verif

package api

import (
	"diagonal.works/b6"
)

// C31: shell aliases print and parse back to the same ID; IDs without an alias
// print in the long form and parse back.
//
//vh:steps=6000000 split=3
func VH_C31_Aliases() {
	which := vChoice("alias", len(aliases)+1)
	var id b6.FeatureID
	if which < len(aliases) {
		a := aliases[which]
		id = b6.FeatureID{Type: a.Type, Namespace: a.Namespace, Value: vU64("value")}
	} else {
		// no alias: an OSM way namespace id of a type that has none
		id = b6.FeatureID{Type: b6.FeatureTypeRelation, Namespace: b6.NamespaceOSMWay, Value: vU64("value")}
	}
	switch id.Namespace {
	case b6.NamespaceGBCodePoint:
		// the ids of the namespace: those made from a postcode
		pc := vStr("pc", 5+2*vChoice("pclen", 2))
		for i := 0; i < len(pc); i++ {
			c := pc[i]
			vAssume((c >= '0' && c <= '9') || (c >= 'A' && c <= 'Z'))
		}
		id = b6.PointIDFromGBPostcode(pc)
	case b6.NamespaceUKONSBoundaries:
		digits := []string{"00000000", "01000953", "99999999"}
		code := vStr("letter", 1) + digits[vChoice("digits", len(digits))]
		vAssume(code[0] >= 'A' && code[0] <= 'Z')
		id = b6.FeatureIDFromUKONSCode(code, 1900+int(vU8("year")), b6.FeatureTypeArea)
	default:
		if vTier() == 0 {
			v := id.Value
			vAssume(v < 10 || (v >= 1000000000 && v < 10000000000) || v >= 1000000000000000000)
		}
	}
	for _, abbreviate := range []bool{true, false} {
		s := UnparseFeatureID(id, abbreviate)
		vReach("unparsed")
		back, err := ParseFeatureIDToken(s)
		vAssert(err == nil, "the printed id parses")
		vAssert(back.Type == id.Type && back.Namespace == id.Namespace, "type and namespace survive the shell form")
		vAssert(back.Value == id.Value, "value survives the shell form")
	}
}
