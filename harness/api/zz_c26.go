//go:build verif

package api

import (
	"errors"
	"sync"

	"diagonal.works/b6"
	"diagonal.works/b6/ingest"
)

// C26: callers are told whether their change was applied.
//
// Evaluator.EvaluateExpression from the return of the VM onwards: api.Evaluate
// (the reflection-driven VM, C21) is replaced by a stub that returns a change
// whose Apply fails or succeeds by solver choice and reports solver-chosen
// IDs, or a plain value, or an evaluation error.

type vhChange struct {
	fail bool
	ids  []b6.FeatureID
	n    *int
}

func (c *vhChange) Apply(w ingest.MutableWorld) (b6.Collection[b6.FeatureID, b6.FeatureID], error) {
	*c.n++
	r := b6.ArrayCollection[b6.FeatureID, b6.FeatureID]{Keys: c.ids, Values: c.ids}
	if c.fail {
		return r.Collection(), errors.New("apply failed")
	}
	return r.Collection(), nil
}

type vhWorlds struct {
	ingest.Worlds
	w ingest.MutableWorld
}

func (v vhWorlds) FindOrCreateWorld(id b6.FeatureID) ingest.MutableWorld { return v.w }

var vhEvalResult interface{}
var vhEvalErr error

func vhEvaluate(e b6.Expression, c *Context) (interface{}, error) { return vhEvalResult, vhEvalErr }
func vhSimplify(e b6.Expression, f SymbolArgCounts) b6.Expression  { return e }

//vh:steps=4000000 novalidate
//vh:assume[C26] api.Evaluate (the VM) is replaced by a stub returning a change / a value / an error; Simplify by the identity
func VH_C26_EvaluatorReportsApplyOutcome() {
	vStub("diagonal.works/b6/api.Evaluate", vhEvaluate)
	vStub("diagonal.works/b6/api.Simplify", vhSimplify)
	applied := 0
	nids := vChoice("nids", 3)
	ids := make([]b6.FeatureID, nids)
	for i := range ids {
		ids[i] = b6.FeatureID{Type: b6.FeatureTypePoint, Namespace: "ns", Value: vU64("id")}
	}
	change := &vhChange{fail: vBool("applyfails"), ids: ids, n: &applied}
	kind := vChoice("kind", 3)
	switch kind {
	case 0:
		vhEvalResult, vhEvalErr = change, nil
	case 1:
		vhEvalResult, vhEvalErr = 42, nil
	case 2:
		vhEvalResult, vhEvalErr = nil, errors.New("evaluation failed")
	}
	e := &Evaluator{Worlds: vhWorlds{w: ingest.NewBasicMutableWorld()}, Lock: &sync.RWMutex{}}
	e.Lock.RLock()
	v, err := e.EvaluateExpression(b6.NewIntExpression(1), b6.FeatureIDInvalid)
	e.Lock.RUnlock()
	vReach("evaluated")
	switch kind {
	case 0:
		vAssert(applied == 1, "the change is applied exactly once")
		vAssert((err != nil) == change.fail, "the response is an error exactly when applying the change failed")
		if err == nil {
			ac, ok := v.(*AppliedChange)
			vAssert(ok, "a successful change is answered with the applied change")
			if ok {
				var got []b6.FeatureID
				it := ac.Modified.Begin()
				for {
					ok, _ := it.Next()
					if !ok {
						break
					}
					got = append(got, it.Key())
					vAssert(len(got) <= nids, "finite")
				}
				vAssert(len(got) == nids, "the returned ids are the features the change modified")
				for i := range got {
					if i < nids {
						vAssert(got[i] == ids[i], "the returned ids are the features the change modified")
					}
				}
			}
		}
	case 1:
		vAssert(err == nil && v == 42 && applied == 0, "a plain value is returned as is")
	case 2:
		vAssert(err != nil && applied == 0, "an evaluation error is reported and nothing is applied")
	}
}
