//go:build verif

package api

import (
	"diagonal.works/b6"
)

// C22: simplification never leaves a lambda parameter unbound or captures a
// different binding, and the query-building rewrites keep the query's
// meaning.  (That evaluating the simplified program gives the same value needs
// the VM, C21, and is outside.)

type vhArity struct {
	names []string
	n     []int
}

func (a vhArity) ArgCount(s b6.SymbolExpression) (int, bool) {
	for i := range a.names {
		if a.names[i] == string(s) {
			return a.n[i], true
		}
	}
	return 0, false
}

func (a vhArity) IsVariadic(s b6.SymbolExpression) (bool, bool) {
	_, ok := a.ArgCount(s)
	return false, ok
}

func vhSym(name string) b6.Expression { return b6.NewSymbolExpression(name) }

// vhFree: is name free in e?
func vhFree(e b6.Expression, name string) bool {
	switch x := e.AnyExpression.(type) {
	case b6.SymbolExpression:
		return string(x) == name
	case b6.CallExpression:
		free := vhFree(x.Function, name)
		for _, a := range x.Args {
			free = vOr(free, vhFree(a, name))
		}
		return free
	case b6.LambdaExpression:
		bound := false
		for _, p := range x.Args {
			bound = vOr(bound, p == name)
		}
		return vAnd(!bound, vhFree(x.Expression, name))
	}
	return false
}

// Lambdas whose bodies are calls using the parameters twice, out of order,
// not at all, or in the function position; every identifier is a one-byte
// symbolic name, so captures and coincidences are the solver's choice.
//
//vh:steps=6000000 split=5
func VH_C22_NoUnboundParameters() {
	names := []string{vStr("f", 1), vStr("x", 1), vStr("y", 1), vStr("z", 1)}
	fs := vhArity{names: []string{"f"}, n: []int{int(vU8("arity") & 3)}}
	fs.names[0] = names[0]
	pick := func(n string) b6.Expression { return vhSym(names[vChoice(n, len(names))]) }
	nparams := 1 + vChoice("nparams", 2)
	params := make([]string, nparams)
	for i := range params {
		params[i] = names[1+vChoice("param", 3)]
	}
	nargs := vChoice("nargs", 4)
	args := make([]b6.Expression, nargs)
	for i := range args {
		args[i] = pick("arg")
	}
	body := b6.Expression{AnyExpression: b6.CallExpression{Function: pick("fn"), Args: args}}
	var e b6.Expression = b6.Expression{AnyExpression: b6.LambdaExpression{Args: params, Expression: body}}
	if vBool("nested") {
		// the lambda is itself the body of an outer lambda binding one name
		e = b6.Expression{AnyExpression: b6.LambdaExpression{Args: []string{names[1+vChoice("outer", 3)]}, Expression: e}}
	}
	// free variables of the input
	freeBefore := make([]bool, len(names))
	for i, n := range names {
		freeBefore[i] = vhFree(e, n)
	}
	s := Simplify(e.Clone(), fs)
	vReach("simplified")
	for i, n := range names {
		vAssert(vOr(!vhFree(s, n), freeBefore[i]), "simplification does not make a bound name free (no parameter is left unbound)")
	}
}

// Query-building calls (and / or / keyed / tagged / typed) and nested
// intersections / unions simplify to a query with the same meaning: Matches
// agrees on every feature, for symbolic tags.
//
//vh:steps=6000000 split=4
func VH_C22_QueriesKeepTheirMeaning() {
	str := func(s string) b6.Expression { return b6.NewStringExpression(s) }
	call := func(f string, args ...b6.Expression) b6.Expression {
		return b6.NewCallExpression(vhSym(f), args)
	}
	keys := []string{"#a", "#b", "#c"}
	leaf := func(n string) (b6.Expression, b6.Query) {
		k := keys[vChoice(n, len(keys))]
		if vBool(n + "tagged") {
			return call("tagged", str(k), str("x")), b6.Tagged{Key: k, Value: b6.NewStringExpression("x")}
		}
		return call("keyed", str(k)), b6.Keyed{Key: k}
	}
	var build func(n string, depth int) (b6.Expression, b6.Query)
	build = func(n string, depth int) (b6.Expression, b6.Query) {
		if depth == 0 || vBool(n+"leaf") {
			return leaf(n)
		}
		le, lq := build(n+"l", depth-1)
		rd := depth - 1
		if vTier() == 0 {
			rd = 0 // quick: nesting on the left only
		}
		re, rq := build(n+"r", rd)
		if vBool(n + "and") {
			return call("and", le, re), b6.Intersection{lq, rq}
		}
		return call("or", le, re), b6.Union{lq, rq}
	}
	e, want := build("q", 2)
	s := Simplify(e, vhArity{})
	vReach("simplified")
	q, ok := s.AnyExpression.(b6.QueryExpression)
	vAssert(ok, "a query-building call simplifies to a query literal")
	if !ok {
		return
	}
	// a feature with symbolic presence/values of the three keys
	f := &vhTagged{}
	for _, k := range keys {
		if vBool("has") {
			v := "x"
			if vBool("other") {
				v = "y"
			}
			f.tags = append(f.tags, b6.Tag{Key: k, Value: b6.NewStringExpression(v)})
		}
	}
	vAssert(q.Query.Matches(f, nil) == want.Matches(f, nil), "the simplified query matches exactly the features the written query matches")
	// literal queries with nesting are flattened without losing operands
	nested := b6.Expression{AnyExpression: b6.QueryExpression{Query: want}}
	flat := Simplify(nested, vhArity{}).AnyExpression.(b6.QueryExpression)
	vAssert(flat.Query.Matches(f, nil) == want.Matches(f, nil), "flattening nested and/or keeps every operand")
}

type vhTagged struct {
	b6.ID
	tags b6.Tags
}

func (t *vhTagged) AllTags() b6.Tags            { return t.tags }
func (t *vhTagged) Get(key string) b6.Tag       { return t.tags.Get(key) }
func (t *vhTagged) References() []b6.Reference  { return nil }
func (t *vhTagged) Reference(i int) b6.Reference { return b6.FeatureIDInvalid }
