//go:build verif

package functions

import (
	"context"
	"errors"
	"reflect"
	"sync"
	"time"

	"diagonal.works/b6"
	"diagonal.works/b6/api"
)

// C25: map-parallel returns map's results for any core count and schedule.
//
// mapParallelCollection (Begin, run, Next: the round-robin dispatcher, the
// workers, the consumer, errgroup) is executed for real under every schedule
// within the context bound. Applying the function goes through the
// reflection-driven VM, which is cut out: VM.CallWithArgsAndExpressions is
// replaced by "value + 100, or an error for one chosen item" (the item is
// recognised by its expression), reflect.ValueOf by a zero Value, and
// context.WithCancelCause by the small context model. The reference is the
// real sequential map over the same collection with the same replacement.

type vhCtx struct {
	mu       sync.Mutex // as in the real context: cancel and Err are synchronised (and so are scheduling points)
	done     chan struct{}
	canceled bool
}

var vhErrCanceled = errors.New("context canceled")

func (c *vhCtx) Deadline() (time.Time, bool) { return time.Time{}, false }
func (c *vhCtx) Done() <-chan struct{}       { return c.done }
func (c *vhCtx) Err() error {
	c.mu.Lock()
	defer c.mu.Unlock()
	if c.canceled {
		return vhErrCanceled
	}
	return nil
}
func (c *vhCtx) Value(key interface{}) interface{} { return nil }
func (c *vhCtx) cancel() {
	c.mu.Lock()
	defer c.mu.Unlock()
	if !c.canceled {
		c.canceled = true
		close(c.done)
	}
}

var vhErrApply = errors.New("function failed")

//vh:steps=8000000 concurrent sched=600 preempt=2 paths=400000 paths.thorough=2000000 wall.thorough=900 novalidate
func VH_C25_MapParallel() {
	vStub("context.WithCancelCause", func(parent context.Context) (context.Context, context.CancelCauseFunc) {
		c := &vhCtx{done: make(chan struct{})}
		return c, func(error) { c.cancel() }
	})
	vStub("reflect.ValueOf", func(i interface{}) reflect.Value { return reflect.Value{} })
	n := vChoice("items", 3+vTier()) // 0..2 (thorough 0..3) items
	cores := 2 + vChoice("cores", 1+vTier())
	failAt := vChoice("failat", n+1) // the item whose application fails; n: none
	vStub("(*diagonal.works/b6/api.VM).CallWithArgsAndExpressions", func(v *api.VM, c *api.Context, f api.Callable, args []api.StackFrame) (interface{}, error) {
		item := int(args[0].Expression.AnyExpression.(b6.IntExpression))
		if item == 10+failAt {
			return nil, vhErrApply
		}
		return item + 100, nil
	})
	input := b6.ArrayCollection[any, any]{}
	for i := 0; i < n; i++ {
		input.Keys = append(input.Keys, i)
		input.Values = append(input.Values, 10+i)
	}
	ctx := &api.Context{Cores: cores, Context: &vhCtx{done: make(chan struct{})}}

	// the reference: the sequential map
	var wantK, wantV []int
	var wantErr error
	// (map_ itself only adds the expression of its argument, read from the VM)
	si := (&mapCollection{c: input.Collection(), context: ctx}).Begin()
	for {
		ok, err := si.Next()
		if err != nil {
			wantErr = err
			break
		}
		if !ok {
			break
		}
		wantK = append(wantK, si.Key().(int))
		wantV = append(wantV, si.Value().(int))
	}
	vAssert((wantErr != nil) == (failAt < n), "the reference fails exactly when an application fails")

	par, err := mapParallel(ctx, input.Collection(), nil)
	vAssert(err == nil, "map-parallel")
	pi := par.Begin()
	got := 0
	var gotErr error
	for {
		ok, err := pi.Next()
		if err != nil {
			gotErr = err
			break
		}
		if !ok {
			break
		}
		vAssert(got < len(wantK), "map-parallel yields no more results than map")
		if got < len(wantK) {
			vAssert(pi.Key().(int) == wantK[got] && pi.Value().(int) == wantV[got], "map-parallel yields map's keys and values in map's order")
		}
		got++
	}
	vReach("drained")
	if wantErr == nil {
		vAssert(gotErr == nil, "no error when no application fails")
		vAssert(got == len(wantK), "map-parallel yields every result of map")
	} else {
		vAssert(gotErr == wantErr, "a failing application ends map-parallel with that error")
	}
}
