//go:build verif

package functions

import (
	"diagonal.works/b6"
	"diagonal.works/b6/api"
	"diagonal.works/b6/ingest"
	"github.com/golang/geo/s2"
)

// C23 (search functions): building a query with the query functions from any
// arguments a client can send and evaluating find on it returns a collection
// whose iteration ends; it never panics. The functions are called directly
// (the VM's dispatch is reflection-driven and outside); the queries are the
// values the VM would hand over.

var vhC23TypeNames = []string{"point", "path", "area", "relation", "collection", "expression", "", "bogus", "invalid"}

func vhC23Leaf(c *api.Context, name string) b6.Query {
	switch vChoice(name, 5) {
	case 0:
		q, err := all(c)
		vAssert(err == nil, "all")
		return q
	case 1:
		q, err := keyed(c, []string{"#amenity", "@source", "name", ""}[vChoice(name+"key", 4)])
		vAssert(err == nil, "keyed")
		return q
	case 2:
		q, err := tagged(c, []string{"#amenity", ""}[vChoice(name+"tkey", 2)], []string{"cafe", ""}[vChoice(name+"tvalue", 2)])
		vAssert(err == nil, "tagged")
		return q
	case 3:
		return b6.Intersection{} // what a query message with no operands decodes to
	default:
		return b6.Union{}
	}
}

func vhC23World() *ingest.BasicMutableWorld {
	w := ingest.NewBasicMutableWorld()
	for i := 0; i < 2; i++ {
		p := &ingest.GenericFeature{ID: b6.FeatureID{Type: b6.FeatureTypePoint, Namespace: "diagonal.works/test", Value: uint64(i)}}
		p.AddTag(b6.Tag{Key: "#amenity", Value: b6.NewStringExpression([]string{"cafe", "pub"}[i])})
		p.AddTag(b6.Tag{Key: b6.PointTag, Value: b6.NewPointExpressionFromLatLng(s2.LatLngFromDegrees(51.5+float64(i)/100, -0.1))})
		vAssert(w.AddFeature(p) == nil, "AddFeature")
	}
	return w
}

//vh:steps=8000000 split=4
func VH_C23_FindNeverPanics() {
	c := &api.Context{World: vhC23World()}
	var q b6.Query
	switch vChoice("shape", 4) {
	case 0:
		q = vhC23Leaf(c, "leaf")
	case 1:
		var err error
		q, err = typed(c, vhC23TypeNames[vChoice("type", len(vhC23TypeNames))], vhC23Leaf(c, "leaf"))
		vAssert(err == nil, "typed returns a query or an error value")
	case 2:
		var err error
		q, err = and(c, vhC23Leaf(c, "a"), vhC23Leaf(c, "b"))
		vAssert(err == nil, "and")
	default:
		var err error
		q, err = or(c, vhC23Leaf(c, "a"), vhC23Leaf(c, "b"))
		vAssert(err == nil, "or")
	}
	found, err := find(c, q)
	vReach("find")
	if err != nil {
		return
	}
	i := found.Begin()
	n := 0
	for {
		ok, err := i.Next()
		if err != nil || !ok {
			break
		}
		n++
		vAssert(n <= 8, "iteration over the results ends")
	}
	vReach("iterated")
	// the same queries print and convert to messages without panicking
	_ = q.String()
	_, _ = q.ToProto()
}

// take and top with any 64-bit count (negative, zero, huge) over collections
// of 0..3 items: they return a collection or an error, and iterating the
// result ends. (What they return is C24's subject.)
//
//vh:steps=6000000 split=3
func VH_C23_CountsNeverPanic() {
	n0 := vChoice("len", 4)
	c, _, _ := vhIntCollection("c", n0)
	n := vInt("n")
	var r b6.Collection[any, any]
	var err error
	if vBool("top") {
		if vTier() == 0 {
			vAssume(n >= -2 && n <= 5) // top's heap size follows n
		}
		r, err = top(nil, c.Collection(), n)
	} else {
		r, err = take(nil, c.Collection(), n)
	}
	vReach("called")
	if err != nil {
		return
	}
	i := r.Begin()
	k := 0
	for {
		ok, err := i.Next()
		if err != nil || !ok {
			break
		}
		k++
		vAssert(k <= n0, "iteration over the result ends")
	}
}
