//go:build verif

package functions

import (
	"diagonal.works/b6"
)

// C24 / C23: collection functions compute what their documentation says, and
// never panic or loop on any argument (these are plain Go functions behind the
// VM's dispatch; the VM itself is reflection-driven and out of reach).

func vhIntCollection(name string, n int) (b6.ArrayCollection[any, any], []int, []int) {
	c := b6.ArrayCollection[any, any]{}
	var ks, vs []int
	for i := 0; i < n; i++ {
		k, v := int(vU8(name+"k")&7), int(vU8(name+"v")&7)
		c.Keys = append(c.Keys, k)
		c.Values = append(c.Values, v)
		ks = append(ks, k)
		vs = append(vs, v)
	}
	return c, ks, vs
}

func vhDrainAny(c b6.Collection[any, any], limit int) ([]int, []int) {
	var ks, vs []int
	i := c.Begin()
	for {
		ok, err := i.Next()
		vAssert(err == nil, "iteration does not fail")
		if !ok {
			break
		}
		ks = append(ks, i.Key().(int))
		vs = append(vs, i.Value().(int))
		vAssert(len(ks) <= limit, "iteration terminates")
	}
	return ks, vs
}

// take: the first n items; with a count, iteration yields exactly that many.
// n is any int (a client may send a negative or huge count).
//
//vh:steps=4000000 split=3
func VH_C24_Take() {
	n0 := vChoice("len", 4)
	c, ks, vs := vhIntCollection("c", n0)
	n := vInt("n")
	t, err := take(nil, c.Collection(), n)
	vAssert(err == nil, "take succeeds")
	gk, gv := vhDrainAny(t, n0+1)
	vReach("take")
	want := n0
	if n < n0 {
		want = n
	}
	if want < 0 {
		want = 0
	}
	vAssert(len(gk) == want, "take yields min(n, len) items (none for n <= 0)")
	for i := range gk {
		vAssert(gk[i] == ks[i] && gv[i] == vs[i], "take yields the first items in order")
	}
	if cnt, ok := t.Count(); ok {
		vAssert(cnt == len(gk), "when a count is reported, iteration yields exactly that many items")
	}
}

// top: the n items with the largest values, largest first.
//
//vh:steps=6000000 split=4
func VH_C24_Top() {
	n0 := vChoice("len", 4)
	c, ks, vs := vhIntCollection("c", n0)
	n := vInt("n")
	if vTier() == 0 {
		vAssume(n >= -1 && n <= 5)
	}
	t, err := top(nil, c.Collection(), n)
	vReach("top")
	vAssert(err == nil, "top succeeds on ints")
	gk, gv := vhDrainAny(t, n0+1)
	want := n0
	if n < n0 {
		want = n
	}
	if want < 0 {
		want = 0
	}
	vAssert(len(gk) == want, "top yields min(n, len) items")
	for i := range gv {
		if i > 0 {
			vAssert(gv[i-1] >= gv[i], "top yields values in decreasing order")
		}
		// each result is an item of the input
		in := false
		for j := range ks {
			in = vOr(in, vAnd(ks[j] == gk[i], vs[j] == gv[i]))
		}
		vAssert(in, "top yields items of the input")
	}
	// nothing left out is larger than the smallest taken
	if len(gv) > 0 && len(gv) < n0 {
		least := gv[len(gv)-1]
		for j := range vs {
			// count how many inputs are strictly larger than least: must fit in the result
			_ = j
		}
		larger := 0
		for j := range vs {
			if vs[j] > least {
				larger++
			}
		}
		vAssert(larger <= len(gv), "no item left out has a larger value than one that was taken")
	}
}

// sum-by-key, count-values, count-keys against list definitions.
//
//vh:steps=6000000 split=4
func VH_C24_Counting() {
	n0 := vChoice("len", 4)
	c, ks, vs := vhIntCollection("c", n0)
	switch vChoice("fn", 3) {
	case 0:
		ci := b6.ArrayCollection[any, int]{}
		for i := range ks {
			ci.Keys = append(ci.Keys, ks[i])
			ci.Values = append(ci.Values, vs[i])
		}
		r, err := sumByKey(nil, ci.Collection())
		vAssert(err == nil, "sum-by-key succeeds")
		vReach("sum")
		seen := 0
		i := r.Begin()
		for {
			ok, _ := i.Next()
			if !ok {
				break
			}
			seen++
			vAssert(seen <= n0, "terminates")
			k := i.Key().(int)
			sum, present := 0, false
			for j := range ks {
				if ks[j] == k {
					sum += vs[j]
					present = true
				}
			}
			vAssert(present, "sum-by-key yields only keys of the input")
			vAssert(i.Value() == sum, "sum-by-key yields the sum of the key's values")
		}
		distinct := 0
		for j := range ks {
			first := true
			for l := 0; l < j; l++ {
				if ks[l] == ks[j] {
					first = false
				}
			}
			if first {
				distinct++
			}
		}
		vAssert(seen == distinct, "sum-by-key yields each key once")
	case 1:
		r, err := countValues(nil, c.Collection())
		vAssert(err == nil, "count-values succeeds")
		vReach("count-values")
		i := r.Begin()
		total := 0
		for {
			ok, _ := i.Next()
			if !ok {
				break
			}
			v := i.Key().(int)
			cnt := 0
			for j := range vs {
				if vs[j] == v {
					cnt++
				}
			}
			vAssert(i.Value() == cnt && cnt > 0, "count-values counts the occurrences of each value")
			total += cnt
			vAssert(total <= n0, "terminates")
		}
		vAssert(total == n0, "count-values covers every item")
	case 2:
		r, err := countKeys(nil, c.Collection())
		vAssert(err == nil, "count-keys succeeds")
		vReach("count-keys")
		i := r.Begin()
		total := 0
		for {
			ok, _ := i.Next()
			if !ok {
				break
			}
			k := i.Key().(int)
			cnt := 0
			for j := range ks {
				if ks[j] == k {
					cnt++
				}
			}
			vAssert(i.Value() == cnt && cnt > 0, "count-keys counts the occurrences of each key")
			total += cnt
			vAssert(total <= n0, "terminates")
		}
		vAssert(total == n0, "count-keys covers every item")
	}
}

// flatten: the concatenation of the inner collections.
//
//vh:steps=6000000 split=3
func VH_C24_Flatten() {
	outer := b6.ArrayCollection[any, b6.UntypedCollection]{}
	var wk, wv []int
	no := vChoice("outer", 3)
	for i := 0; i < no; i++ {
		c, ks, vs := vhIntCollection("c", vChoice("inner", 3))
		outer.Keys = append(outer.Keys, i)
		outer.Values = append(outer.Values, c.Collection())
		wk = append(wk, ks...)
		wv = append(wv, vs...)
	}
	f, err := flatten(nil, outer.Collection())
	vAssert(err == nil, "flatten succeeds")
	gk, gv := vhDrainAny(f, len(wk)+1)
	vReach("flatten")
	vAssert(len(gk) == len(wk), "flatten yields every inner item")
	for i := range gk {
		vAssert(gk[i] == wk[i] && gv[i] == wv[i], "flatten yields the inner items in order")
	}
}

// join-missing: base items, plus the items of joined whose key is not a key of
// base, in key order (both inputs sorted by key).
//
//vh:steps=8000000 split=5
func VH_C24_JoinMissing() {
	nb, nj := vChoice("nb", 3), vChoice("nj", 4)
	base, bk, bv := vhIntCollection("b", nb)
	joined, jk, jv := vhIntCollection("j", nj)
	for i := 1; i < nb; i++ {
		vAssume(bk[i-1] <= bk[i])
	}
	for i := 1; i < nj; i++ {
		vAssume(jk[i-1] <= jk[i])
	}
	r, err := joinMissing(nil, base.Collection(), joined.Collection())
	vAssert(err == nil, "join-missing succeeds")
	gk, gv := vhDrainAny(r, nb+nj+1)
	vReach("join")
	// reference: all of base, and those of joined whose key is not in base
	want := nb
	for j := range jk {
		in := false
		for i := range bk {
			in = in || bk[i] == jk[j]
		}
		if !in {
			want++
		}
	}
	vAssert(len(gk) == want, "join-missing yields base plus the joined items whose key is missing from base")
	for i := range gk {
		if i > 0 {
			vAssert(gk[i-1] <= gk[i], "join-missing yields keys in order")
		}
		inB, inJ := false, false
		for l := range bk {
			inB = inB || (bk[l] == gk[i] && bv[l] == gv[i])
		}
		keyInB := false
		for l := range bk {
			keyInB = keyInB || bk[l] == gk[i]
		}
		for l := range jk {
			inJ = inJ || (jk[l] == gk[i] && jv[l] == gv[i])
		}
		vAssert(inB || (inJ && !keyInB), "join-missing yields base items, or joined items whose key base lacks")
	}
}
