#!/usr/bin/env python3
"""confirm_seed.py <prop-id> <src-dir> <name> [--full]

Confirms a seeded change delivered by a sub-agent in <src-dir> (patch.diff,
demo_test.go, notes.md) inside a scratch worktree of /repo under /tmp, and if
everything holds copies it to /verif/seeded/<name>/ with a meta.json:
  1. the patch applies to /repo's HEAD and the module still builds,
  2. the demo test FAILS with the patch and PASSES without it,
  3. the existing tests (unedited) of the touched packages and of every package
     importing them (or the whole suite with --full) still pass with the patch.
The worktree is removed afterwards.
"""
import json, os, re, shutil, subprocess, sys, tempfile, time

ENV = dict(os.environ, GOFLAGS="-mod=mod", GOPROXY="off", GOSUMDB="off", GOTOOLCHAIN="local")
MOD = "src/diagonal.works/b6"


def sh(cmd, cwd, timeout=3000):
    p = subprocess.run(cmd, cwd=cwd, env=ENV, shell=True, stdout=subprocess.PIPE, stderr=subprocess.STDOUT, text=True, timeout=timeout)
    return p.returncode, p.stdout


def main():
    pid, src, name = sys.argv[1:4]
    full = "--full" in sys.argv
    wt = tempfile.mkdtemp(prefix="seedwt_")
    os.rmdir(wt)
    rc, out = sh("git -C /repo worktree add --detach %s HEAD" % wt, "/")
    assert rc == 0, out
    log = []
    ok = False
    try:
        patch = os.path.join(src, "patch.diff")
        demo = open(os.path.join(src, "demo_test.go")).read()
        m = re.search(r"(src/diagonal\.works/b6[\w/\.\-]*)", demo.split("\n", 3)[0] + demo.split("\n", 3)[1] if "\n" in demo else demo)
        pkgm = re.search(r"^package (\w+)", demo, re.M)
        first = "\n".join(demo.split("\n")[:6])
        m = re.search(r"(src/diagonal\.works/b6(?:/[\w\.\-]+)*)", first)
        if not m:
            raise SystemExit("cannot find the demo's directory in its first comment lines:\n" + first)
        ddir = m.group(1).rstrip("/.")
        if ddir.endswith(".go"):
            ddir = os.path.dirname(ddir)
        demopath = os.path.join(wt, ddir, "zz_seed_demo_test.go")
        rel = "./" + os.path.relpath(os.path.join(wt, ddir), os.path.join(wt, MOD))
        testnames = re.findall(r"^func (Test\w+)\(", demo, re.M)
        runre = "^(" + "|".join(testnames) + ")$"
        # 2a. demo passes without the patch
        open(demopath, "w").write(demo)
        rc, out = sh("go test -vet=off -count=1 -run '%s' %s" % (runre, rel), os.path.join(wt, MOD))
        log.append("demo without patch: rc=%d" % rc)
        if rc != 0:
            raise SystemExit("demo does not pass without the patch:\n" + out[-3000:])
        # 1. patch applies, builds
        rc, out = sh("git apply %s" % patch, wt)
        if rc != 0:
            raise SystemExit("patch does not apply: " + out)
        rc, out = sh("go build ./... 2>&1 | grep -v gdal | grep -v '^#' | head", os.path.join(wt, MOD))
        # 2b. demo fails with the patch
        rc, out = sh("go test -vet=off -count=1 -run '%s' %s" % (runre, rel), os.path.join(wt, MOD))
        log.append("demo with patch: rc=%d" % rc)
        if rc == 0:
            raise SystemExit("demo does not fail with the patch")
        demo_fail_tail = out[-1500:]
        os.remove(demopath)
        # 3. existing tests with the patch
        rc, out = sh("git diff --name-only", wt)
        touched = sorted({os.path.dirname(f) for f in out.split() if f.endswith(".go")})
        if full:
            pkgs = "./..."
        else:
            # touched packages and everything importing them
            tp = ["diagonal.works/b6" + ("/" + os.path.relpath(t, MOD) if os.path.relpath(t, MOD) != "." else "") for t in touched]
            rc, out = sh("go list -f '{{.ImportPath}} {{join .Deps \" \"}}' ./... 2>/dev/null", os.path.join(wt, MOD))
            sel = []
            for line in out.splitlines():
                parts = line.split()
                if not parts or "gdal" in parts[0]:
                    continue
                if parts[0] in tp or any(t in parts[1:] for t in tp):
                    sel.append(parts[0])
            # test-only imports too
            rc, out = sh("go list -f '{{.ImportPath}} {{join .TestImports \" \"}} {{join .XTestImports \" \"}}' ./... 2>/dev/null", os.path.join(wt, MOD))
            for line in out.splitlines():
                parts = line.split()
                if parts and "gdal" not in parts[0] and any(t in parts[1:] for t in tp) and parts[0] not in sel:
                    sel.append(parts[0])
            sel = [s for s in sel if not s.startswith("diagonal.works/b6/cmd/b6-ingest-g") and "terrain" not in s]
            pkgs = " ".join(sel)
        t0 = time.time()
        rc, out = sh("go test -vet=off -count=1 -timeout 25m %s 2>&1 | grep -v 'no test files'" % pkgs, os.path.join(wt, MOD), timeout=3600)
        fails = [l for l in out.splitlines() if (l.startswith("FAIL") or l.startswith("--- FAIL") or "panic:" in l) and "gdal" not in l and "[build failed]" not in l and l.strip() != "FAIL"]
        oks = [l for l in out.splitlines() if l.startswith("ok")]
        log.append("existing tests with patch (%s): %d packages ok, %d failure lines, %.0fs" % ("whole suite" if full else "touched packages and their importers", len(oks), len(fails), time.time() - t0))
        if fails or not oks:
            raise SystemExit("existing tests fail with the patch:\n" + "\n".join(fails[:10]) + out[-1500:])
        ok = True
        dst = os.path.join("/verif/seeded", name)
        os.makedirs(dst, exist_ok=True)
        shutil.copy(patch, os.path.join(dst, "patch.diff"))
        open(os.path.join(dst, "demo_test.go"), "w").write(demo)
        notes = ""
        if os.path.exists(os.path.join(src, "notes.md")):
            notes = open(os.path.join(src, "notes.md")).read()
            open(os.path.join(dst, "notes.md"), "w").write(notes)
        needs = ""
        mm = re.search(r"(?is)(trigger|manifest)[^\n]*\n(.{0,700})", notes)
        if mm:
            needs = mm.group(0)[:700]
        meta = {
            "property": pid,
            "name": name,
            "breaks": pid,
            "touched": touched,
            "demo_dir": ddir,
            "demo_tests": testnames,
            "needs_to_manifest": needs,
            "confirmed": log,
            "confirmed_at_repo_commit": subprocess.check_output(["git", "-C", "/repo", "rev-parse", "--short", "HEAD"], text=True).strip(),
            "demo_failure_tail": demo_fail_tail[-600:],
            "origin": "independent sub-agent given only the property text and a scratch worktree",
        }
        json.dump(meta, open(os.path.join(dst, "meta.json"), "w"), indent=1)
        print("CONFIRMED", name, "; ".join(log))
    finally:
        sh("git -C /repo worktree remove --force %s" % wt, "/")
        if not ok:
            print("NOT CONFIRMED", name, "; ".join(log))


if __name__ == "__main__":
    main()
