#!/usr/bin/env python3
"""Regenerates /verif/MANIFEST.json from tools/claims.json (claimed
properties with their level text) and the not-applicable table."""
import json, os, sys

V = os.path.dirname(os.path.dirname(os.path.abspath(__file__)))
claims = json.load(open(os.path.join(V, "tools", "claims.json")))
props = [json.loads(l) for l in open(os.path.join(V, "properties.jsonl"))]
ids = [p["id"] for p in props]

checks = []
for pid in ids:
    c = claims["claimed"].get(pid)
    if not c:
        continue
    checks.append({
        "property_id": pid,
        "quick_cmd": "./check %s --tier quick" % pid,
        "thorough_cmd": "./check %s --tier thorough" % pid,
        "evidence_file": "evidence/%s.json" % pid,
        "replay_cmd_template": "./check %s --replay {path}" % pid,
        "engine": "gosym",
        "level_claimed": {
            "category": "model_checking",
            "text": c["text"],
            "design_ref": "DESIGN.md §5 " + pid,
        },
        "level_note": c["note"],
        "technique": c.get("technique", "bounded symbolic execution of the real code from go/ssa; assertions decided by z3/cvc5 over all inputs within the stated bounds; counterexamples replayed natively"),
    })

na = []
for pid in ids:
    if pid in claims["claimed"]:
        continue
    reason = claims["not_applicable"].get(pid)
    if not reason:
        reason = "not claimed in this commit: no harness has run clean yet (see DESIGN.md §5 for the plan)"
    na.append({"property_id": pid, "reason": reason})

m = {
    "version": 1,
    "setup_cmd": "cd engine && GOFLAGS=-mod=mod GOPROXY=off GOSUMDB=off GOTOOLCHAIN=local go build -o ../bin/gosym .",
    "hooks": {
        "guard": "verif",
        "enable": "harness files (//go:build verif) are injected into /repo's packages with go/packages Overlay (engine) and `go test -tags verif -overlay` (native replay); nothing under /repo carries hook code",
        "baseline_off_cmd": "cd /repo/src/diagonal.works/b6 && GOFLAGS=-mod=mod GOPROXY=off GOSUMDB=off go test -vet=off -count=1 -timeout 25m ./...",
        "source_commits": [],
        "add_only": True,
    },
    "engines": [{
        "name": "gosym",
        "path": "engine/",
        "serves_properties": [c["property_id"] for c in checks],
        "kind_free_text": "path-wise symbolic executor for Go SSA (golang.org/x/tools/go/ssa v0.29.0) written for this task: boxed concrete shapes, symbolic scalars as SMT bit-vector terms, stateless DFS over solver-decided branch decisions, z3 5.1.0 (z3-new -in, one long-lived process per worker; z3 4.8.12 and cvc5 selectable), context-bounded schedule exploration for the two concurrent properties, native replay of every input counterexample and native-vs-engine trace comparison on seeded inputs on every run",
    }],
    "checks": checks,
    "not_applicable": na,
    "notes": "All checks are bounded: each evidence file lists the harness bounds and the functions that were executed symbolically. See DESIGN.md.",
}
json.dump(m, open(os.path.join(V, "MANIFEST.json"), "w"), indent=1)
print("claimed:", len(checks), "not applicable:", len(na))
