#!/bin/bash
# try.sh <pkg> <regex> [wall] [extra gosym args] : run each matching harness in its own process (8 at a time), print summary lines
pkg=$1; re=$2; wall=${3:-60}; shift; shift; shift
names=$(/verif/bin/gosym -pkg $pkg -run "$re" -list | python3 -c "import sys,json; [print(json.loads(l)['Name']) for l in sys.stdin]")
mkdir -p /tmp/try
echo "$names" | xargs -P 8 -I{} sh -c "/verif/bin/gosym -pkg $pkg -run {} -wall $wall -out /tmp/try/{}.json $* 2>&1 | grep -v '^Note' | head -12"
