#!/usr/bin/env python3
"""claim.py <id> <text> <note>  -- add/update a claimed property and regenerate MANIFEST.json"""
import json, sys, os, subprocess
V = os.path.dirname(os.path.dirname(os.path.abspath(__file__)))
p = os.path.join(V, "tools", "claims.json")
c = json.load(open(p))
pid, text, note = sys.argv[1:4]
c["claimed"][pid] = {"text": text, "note": note}
json.dump(c, open(p, "w"), indent=1)
subprocess.check_call([sys.executable, os.path.join(V, "tools", "mkmanifest.py")])
