#!/bin/bash
# run_tier.sh <tier> <id>... : build the engine, run ./check for each property, keep the verdict lines
tier=$1; shift
cd "$(dirname "$0")/.."
(cd engine && GOFLAGS=-mod=mod GOPROXY=off GOSUMDB=off GOTOOLCHAIN=local go build -o ../bin/gosym .) || exit 2
for p in "$@"; do
  echo "=== $p"
  ( time ./check $p --tier $tier ) 2>&1 | grep -E "VIOLATION|KNOWN-FINDING|INCONCLUSIVE|PARTIAL|^C[0-9]+:|^real" | cut -c1-400
done
