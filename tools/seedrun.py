#!/usr/bin/env python3
"""seedrun.py <seed-name> [<prop> ...] [--tier quick|thorough]

Development tool: runs the registered check(s) against a scratch worktree of
/repo that carries /verif/seeded/<seed-name>/patch.diff, with evidence and
replay files redirected to a temporary directory, and reports whether the
change was detected (a VIOLATION line).  Equivalent to `git -C /repo apply`,
run, `git -C /repo checkout -- .` but does not disturb /repo."""
import json, os, subprocess, sys, tempfile, shutil, time

def main():
    args = [a for a in sys.argv[1:] if not a.startswith("--")]
    tier = "quick"
    if "--tier" in sys.argv:
        tier = sys.argv[sys.argv.index("--tier") + 1]
        args = [a for a in args if a != tier]
    name = args[0]
    sd = os.path.join("/verif/seeded", name)
    meta = json.load(open(os.path.join(sd, "meta.json")))
    props = args[1:] or [meta["property"]]
    wt = tempfile.mkdtemp(prefix="seedrun_")
    os.rmdir(wt)
    out = tempfile.mkdtemp(prefix="seedout_")
    subprocess.check_call(["git", "-C", "/repo", "worktree", "add", "--detach", wt, "HEAD"], stdout=subprocess.DEVNULL, stderr=subprocess.DEVNULL)
    res = {}
    try:
        subprocess.check_call(["git", "apply", os.path.join(sd, "patch.diff")], cwd=wt)
        env = dict(os.environ, VERIF_REPO=os.path.join(wt, "src/diagonal.works/b6"), VERIF_OUT=out)
        for p in props:
            t0 = time.time()
            r = subprocess.run(["./check", p, "--tier", tier], cwd="/verif", env=env, stdout=subprocess.PIPE, stderr=subprocess.DEVNULL, text=True)
            viol = [l for l in r.stdout.splitlines() if l.startswith("VIOLATION") or l.startswith("  harness=")]
            inc = [l for l in r.stdout.splitlines() if l.startswith("INCONCLUSIVE")]
            res[p] = {"exit": r.returncode, "detected": any(l.startswith("VIOLATION") for l in viol), "violations": viol[:6], "inconclusive": inc[:3], "wall_s": round(time.time() - t0)}
            print(name, p, "DETECTED" if res[p]["detected"] else ("inconclusive-only" if inc else "MISSED"), "exit", r.returncode, "%ds" % res[p]["wall_s"])
            for l in viol[:6] + inc[:3]:
                print("   ", l[:300])
    finally:
        subprocess.call(["git", "-C", "/repo", "worktree", "remove", "--force", wt], stdout=subprocess.DEVNULL, stderr=subprocess.DEVNULL)
        shutil.rmtree(out, ignore_errors=True)
    meta.setdefault("checks_run", {})
    for p, v in res.items():
        meta["checks_run"]["%s/%s" % (p, tier)] = v
    json.dump(meta, open(os.path.join(sd, "meta.json"), "w"), indent=1)

main()
