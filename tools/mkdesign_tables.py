#!/usr/bin/env python3
"""Regenerates the generated parts of DESIGN.md (sections 10 and 11) from
known_findings.json and seeded/*/meta.json."""
import json, os, glob, re
V = os.path.dirname(os.path.dirname(os.path.abspath(__file__)))
out = []
out.append("## 10. Defects found in diagonal-b6 and their repairs\n")
out.append("Every entry was returned by a check as a counterexample, replayed natively\n(`go test` with the overlay harness) and then repaired by one unguarded `fix:`\ncommit in `/repo`; the check passes on the repaired tree and reports the\nviolation again if it returns (`known_findings.json`, status `fixed`,\nsuppresses nothing).  No open (unrepaired) finding is recorded.\n")
out.append("| property | harness | commit | what failed |")
out.append("|---|---|---|---|")
for f in json.load(open(os.path.join(V, "known_findings.json")))["findings"]:
    what = f["what"].replace("|", "/")
    what = re.sub(r"^fixed: property=\w+ ", "", what)
    out.append("| %s | %s | %s | %s |" % (f["property"], f["harness"], f.get("commit", ""), what))
out.append("")
out.append("## 11. Seeded changes: which checks catch which\n")
out.append("Each change was written by a fresh sub-agent that saw only the property text\nand a scratch worktree, and was kept only after `tools/confirm_seed.py` had\nconfirmed in another scratch worktree that it compiles, that the existing\ntests of the touched packages and their importers still pass, and that its\ndemonstration fails with it and passes without it.  `tools/seedrun.py` then\nran the registered check against a worktree carrying the change.\n")
out.append("| seeded change | touches | needs to manifest | caught by |")
out.append("|---|---|---|---|")
for mf in sorted(glob.glob(os.path.join(V, "seeded", "*", "meta.json"))):
    m = json.load(open(mf))
    runs = m.get("checks_run", {})
    caught = []
    for k, v in sorted(runs.items()):
        if v.get("detected"):
            asr = ""
            for l in v.get("violations", []):
                mm = re.search(r"harness=(\S+) assertion=(['\"])(.*?)\2 inputs", l)
                if mm:
                    asr = " (%s: %s)" % (mm.group(1), mm.group(3)[:70])
                    break
            caught.append("`./check %s`%s" % (k.replace("/", " --tier "), asr))
        else:
            caught.append("missed by `./check %s`" % k.replace("/", " --tier "))
    needs = (m.get("needs_to_manifest") or "").replace("\n", " ").replace("|", "/")
    needs = re.sub(r"\s+", " ", needs)
    needs = re.sub(r"^(manifest|Trigger needed|triggering)\W*", "", needs)[:240]
    out.append("| %s | %s | %s | %s |" % (m["name"], ", ".join(os.path.basename(t) for t in m.get("touched", [])), needs, "; ".join(caught) or "not run yet"))
out.append("")
text = "\n".join(out)
p = os.path.join(V, "DESIGN.md")
s = open(p).read()
b, e = "<!-- generated:begin -->", "<!-- generated:end -->"
if b in s:
    s = s[:s.index(b)] + b + "\n" + text + "\n" + e + s[s.index(e) + len(e):]
else:
    s += "\n" + b + "\n" + text + "\n" + e + "\n"
open(p, "w").write(s)
print("DESIGN.md tables regenerated")
